import BinlogVerif.Lemmas.VisitRender
import BinlogVerif.Lemmas.VisitRenderPP
import BinlogVerif.Lemmas.VisitRenderPPS
import BinlogVerif.Lemmas.StrBytes
import BinlogVerif.Lemmas.E2ESession
import BinlogVerif.Props.C03
import BinlogVerif.Props.C06
/-
  C07 (part "render refines") — the text `ToStringVisitor` prints, when `mserialize::visit` drives it
  with the tag of a type over the encoding of a value, is the documented rendering `render t v`.

  Scope: the visitor without a pretty printer (`tp = none`, i.e. `_pp == nullptr`: no special
  rendering of time points, durations, paths, addresses), types under the same side conditions as
  C06 (`TyOk`, `depth t < maxRec`, `EmptyStructsOk full t`).

  The invariant on the visitor state `(state, seqDepth, emptyStruct)` is `Mser.Rend`:
   * the value is preceded by `", "` exactly if `state = seq` ("inside a bracket and a sibling was
     already printed"); `seqBegin` = "inside a bracket, nothing printed yet"; `normal` = top level
     or directly after a field name;
   * `seqDepth` and `emptyStruct = false` are restored;
   * afterwards: inside a bracket (`state ≠ normal`, `seqDepth ≠ 0`) the state is `seq`; at top level
     (`normal`, depth 0) it is `normal` again.  (After a field name — `normal` at depth > 0 — the state
     afterwards is either, `visitFieldEnd` overwrites it.)
  Precondition on the start state: `0 ≤ seqDepth` (the C++ field is an `int`; with a negative depth a
  nested bracket could return to depth 0 and reset the state to `normal`) and `emptyStruct = false`.
-/
namespace BinlogVerif.C07
open BinlogVerif BinlogVerif.Tag BinlogVerif.Visit BinlogVerif.Mser BinlogVerif.Pretty

/-- the separator `ToStringVisitor::comma` prints in a state -/
abbrev separator (st : TsState) : Bytes := sepOf st

example : separator .seq = [44, 32] ∧ separator .seqBegin = [] ∧ separator .normal = [] := ⟨rfl, rfl, rfl⟩

theorem c07_render_refines (full : Bytes) (t : Ty) (v : Val) (rest : Bytes) (maxRec : Nat)
    (hok : TyOk t = true) (hv : hasTy t v = true) (hd : depth t < maxRec)
    (hes : EmptyStructsOk full t) (s : Ts) (h0 : 0 ≤ s.seqDepth) (hf : s.emptyStruct = false) :
    ∃ s', Visit.visitImpl (toStringVisitor none) full maxRec (tag t) s (encode t v ++ rest) = .ok (s', rest)
      ∧ s'.out = s.out ++ separator s.state ++ render t v
      ∧ s'.seqDepth = s.seqDepth ∧ s'.emptyStruct = false
      ∧ (s.state ≠ .normal → s.seqDepth ≠ 0 → s'.state = .seq)
      ∧ (s.state = .normal → s.seqDepth = 0 → s'.state = .normal) :=
  render_tag full t v maxRec s rest hok hv hd hes h0 hf

/-- top level: from the initial visitor state the output is exactly `render t v`, the input is
    consumed exactly, and the visitor is back in its initial state (so the next `{}` argument of the
    same event is rendered the same way) -/
theorem c07_render_top (t : Ty) (v : Val) (rest : Bytes)
    (hok : TyOk t = true) (hv : hasTy t v = true) (hd : depth t < 2048)
    (hes : EmptyStructsOk (tag t) t) :
    Visit.visit (toStringVisitor none) (tag t) {} (encode t v ++ rest)
      = .ok ({ state := .normal, seqDepth := 0, emptyStruct := false, out := render t v }, rest) := by
  obtain ⟨s', e, o, d, f, _, st⟩ :=
    c07_render_refines (tag t) t v rest 2048 hok hv hd hes {} (by decide) rfl
  have hst := st rfl rfl
  rw [Visit.visit, e]
  cases s' with
  | mk state seqDepth emptyStruct out =>
    simp only at o d f hst
    subst o d f hst
    simp [sepOf]

/-- the same with decidable hypotheses only (see `C06.c06_emptyStructsOk_of_names`) -/
theorem c07_render_top' (t : Ty) (v : Val) (rest : Bytes)
    (hok : TyOk t = true) (hv : hasTy t v = true) (hd : depth t < 2048)
    (hnames : ∀ n ∈ emptyStructNames t, n ∉ defNames t) :
    Visit.visit (toStringVisitor none) (tag t) {} (encode t v ++ rest)
      = .ok ({ state := .normal, seqDepth := 0, emptyStruct := false, out := render t v }, rest) :=
  c07_render_top t v rest hok hv hd (C06.c06_emptyStructsOk_of_names t t hok hok hnames)

/-- with an accumulated output (several arguments of one event): the text is appended -/
theorem c07_render_append (t : Ty) (v : Val) (rest : Bytes) (pre : Bytes)
    (hok : TyOk t = true) (hv : hasTy t v = true) (hd : depth t < 2048)
    (hes : EmptyStructsOk (tag t) t) :
    Visit.visit (toStringVisitor none) (tag t) { out := pre } (encode t v ++ rest)
      = .ok ({ out := pre ++ render t v }, rest) := by
  obtain ⟨s', e, o, d, f, _, st⟩ :=
    c07_render_refines (tag t) t v rest 2048 hok hv hd hes { out := pre } (Int.le_refl 0) rfl
  have hst := st rfl rfl
  rw [Visit.visit, e]
  cases s' with
  | mk state seqDepth emptyStruct out =>
    simp only at o d f hst
    subst o d f hst
    simp [sepOf]

/-- all values of a singular type render the same: `x ... <repeats N times>` is right for every element -/
theorem c07_singular_render_const (t : Ty) (v v' : Val) (hs : singularTy t = true)
    (hv : hasTy t v = true) (hv' : hasTy t v' = true) : render t v = render t v' :=
  render_singular t v v' hs hv hv'

/-- the hypotheses are satisfiable: the example type of C06 (struct with a sequence, an optional,
    an enum, an empty struct and a repeated sequence) -/
example : Visit.visit (toStringVisitor none) (tag C06.exT) {} (encode C06.exT C06.exV)
    = .ok ({ out := render C06.exT C06.exV }, []) := by
  have := c07_render_top C06.exT C06.exV [] (by decide)
    (by simp [C06.exT, C06.exV, hasTy, hasTyFields, hasTyAll, hasTyNth, hasTyList, arithSize, List.replicate])
    (by decide) (C06.c06_emptyStructsOk_of_noStructDef _ _ (by decide))
  simpa using this

/-! ## C07, message part: the format string with each `{}` replaced by the rendering of the next argument -/

/-- the documented message: the format string with each `{}` replaced by the next rendered argument
    (when the arguments run out, `{}` is replaced by nothing: the C++ pops an empty tag and visits nothing).
    `{` immediately followed by `}` is a placeholder; scanning continues after the `}`. -/
def substitute : Bytes → List Bytes → Bytes
  | [], _ => []
  | [c], _ => [c]
  | c :: d :: rest, args =>
    if c = 123 ∧ d = 125 then args.headD [] ++ substitute rest args.tail
    else c :: substitute (d :: rest) args

theorem visit_nil {σ} (v : Visitor σ) (s : σ) (input : Bytes) : Visit.visit v [] s input = .ok (s, input) := by
  simp [Visit.visit, visitImpl]

/-- the loop of `printEventMessage` for ANY visitor configuration `tp` that renders each argument as
    documented (`hvisit`), any accumulated output, any sufficient fuel -/
theorem c07_message_go (tp : Option TimePrinter) (args : List (Ty × Val))
    (hok : ∀ a ∈ args, TyOk a.1 = true)
    (hvisit : ∀ a ∈ args, ∀ pre rest, Visit.visit (toStringVisitor tp) (tag a.1) { out := pre } (encode a.1 a.2 ++ rest)
        = .ok ({ out := pre ++ render a.1 a.2 }, rest))
    (fuel : Nat) (fmt : Bytes) (hf : fmt.length < fuel) (pre : Bytes) :
    printEventMessage.go tp fuel fmt (tagList (args.map (·.1))) (args.map fun a => encode a.1 a.2).flatten { out := pre }
      = .ok { out := pre ++ substitute fmt (args.map fun a => render a.1 a.2) } := by
  induction fuel generalizing fmt args pre with
  | zero => omega
  | succ fuel ih =>
    match fmt with
    | [] => simp [printEventMessage.go, substitute]
    | [c] =>
      rw [printEventMessage.go]
      have : ¬ (c = 123 ∧ ([] : Bytes).head? = some 125) := by simp
      rw [if_neg this]
      cases fuel with
      | zero => simp at hf
      | succ f => simp [printEventMessage.go, substitute, Ts.write]
    | c :: d :: rest =>
      rw [printEventMessage.go]
      simp only [List.head?_cons, Option.some.injEq, List.drop_succ_cons, List.drop_zero]
      rw [substitute]
      by_cases hc : c = 123 ∧ d = 125
      · rw [if_pos hc, if_pos hc]
        match args with
        | [] =>
          simp only [List.map_nil, tagList_nil, tagPop_nil, List.flatten_nil, visit_nil]
          have := ih [] (by simp) (by simp) rest (by simp at hf; omega) pre
          simpa [tagList_nil] using this
        | a :: as =>
          simp only [List.map_cons, tagList_cons, List.flatten_cons,
            tagPop_tag a.1 (TyOkN.of_tyOk (hok a (by simp))), hvisit a (by simp)]
          have := ih as (fun x hx => hok x (by simp [hx])) (fun x hx => hvisit x (by simp [hx])) rest
            (by simp at hf; omega) (pre ++ render a.1 a.2)
          rw [this]
          simp [List.append_assoc]
      · rw [if_neg hc, if_neg hc]
        have := ih args hok hvisit (d :: rest) (by simp at hf ⊢; omega) (pre ++ [c])
        simp only [Ts.write]
        rw [this]
        simp [List.append_assoc]

/-- **C07, message** (visitor without a pretty printer): for a log statement whose argument tags are the
    tags of the argument types, the message printed for the event carrying the documented encodings of the
    argument values is the format string with each `{}` replaced by the documented rendering. -/
theorem c07_message (src : EventSource) (clock : Nat) (args : List (Ty × Val))
    (htags : src.argumentTags = tagList (args.map (·.1)))
    (hok : ∀ a ∈ args, TyOk a.1 = true ∧ hasTy a.1 a.2 = true ∧ depth a.1 < 2048 ∧ EmptyStructsOk (tag a.1) a.1) :
    Pretty.printEventMessage none ⟨src, clock, (args.map fun a => encode a.1 a.2).flatten⟩
      = .ok (substitute src.formatString (args.map fun a => render a.1 a.2)) := by
  unfold Pretty.printEventMessage
  simp only
  rw [htags, c07_message_go none args (fun a ha => (hok a ha).1)
    (fun a ha pre rest => c07_render_append a.1 a.2 rest pre (hok a ha).1 (hok a ha).2.1 (hok a ha).2.2.1 (hok a ha).2.2.2)
    _ _ (Nat.lt_succ_self _) []]
  simp

/-- no struct occurring in the type is one of those `PrettyPrinter::printStruct` renders specially
    (`binlog::address`, `std::chrono::system_clock::time_point`, `std::chrono::duration<Rep,…`,
    `std::filesystem::path`, `std::filesystem::directory_entry`, `std::error_code`): decidable, by name -/
abbrev NoSpecialStruct (t : Ty) : Prop := noSpecialStruct t = true

/-- what `NoSpecialStruct` buys: `printStruct` declines the struct, whatever the fields and the input are -/
theorem c07_printStruct_declines (tp : Pretty.TimePrinter) (name tagOfFields input : Bytes)
    (h : specialName name = false) : Pretty.printStruct tp name tagOfFields input = .ok none :=
  printStruct_none tp name tagOfFields input h

/-- `c07_render_refines` for the visitor with an arbitrary pretty printer -/
theorem c07_render_refines_pp (tp : Option Pretty.TimePrinter) (full : Bytes) (t : Ty) (v : Val) (rest : Bytes) (maxRec : Nat)
    (hok : TyOk t = true) (hv : hasTy t v = true) (hd : depth t < maxRec)
    (hes : EmptyStructsOk full t) (hns : NoSpecialStruct t) (s : Ts) (h0 : 0 ≤ s.seqDepth) (hf : s.emptyStruct = false) :
    ∃ s', Visit.visitImpl (toStringVisitor tp) full maxRec (tag t) s (encode t v ++ rest) = .ok (s', rest)
      ∧ s'.out = s.out ++ separator s.state ++ render t v
      ∧ s'.seqDepth = s.seqDepth ∧ s'.emptyStruct = false
      ∧ (s.state ≠ .normal → s.seqDepth ≠ 0 → s'.state = .seq)
      ∧ (s.state = .normal → s.seqDepth = 0 → s'.state = .normal) :=
  renderP_tag tp full t v maxRec s rest hok hv hd hes hns h0 hf

/-- `c07_render_append` for the visitor with an arbitrary pretty printer -/
theorem c07_render_append_pp (tp : Option Pretty.TimePrinter) (t : Ty) (v : Val) (rest : Bytes) (pre : Bytes)
    (hok : TyOk t = true) (hv : hasTy t v = true) (hd : depth t < 2048)
    (hes : EmptyStructsOk (tag t) t) (hns : NoSpecialStruct t) :
    Visit.visit (toStringVisitor tp) (tag t) { out := pre } (encode t v ++ rest)
      = .ok ({ out := pre ++ render t v }, rest) := by
  obtain ⟨s', e, o, d, f, _, st⟩ :=
    c07_render_refines_pp tp (tag t) t v rest 2048 hok hv hd hes hns { out := pre } (Int.le_refl 0) rfl
  have hst := st rfl rfl
  rw [Visit.visit, e]
  cases s' with
  | mk state seqDepth emptyStruct out =>
    simp only at o d f hst
    subst o d f hst
    simp [sepOf]

/-- **C07, message, as `bread` prints it** (the visitor has a pretty printer): the same, for argument
    types none of whose structs is specially printed. -/
theorem c07_message_pp (tp : Pretty.TimePrinter) (src : EventSource) (clock : Nat) (args : List (Ty × Val))
    (htags : src.argumentTags = tagList (args.map (·.1)))
    (hok : ∀ a ∈ args, TyOk a.1 = true ∧ hasTy a.1 a.2 = true ∧ depth a.1 < 2048 ∧ EmptyStructsOk (tag a.1) a.1)
    (hns : ∀ a ∈ args, NoSpecialStruct a.1) :
    Pretty.printEventMessage (some tp) ⟨src, clock, (args.map fun a => encode a.1 a.2).flatten⟩
      = .ok (substitute src.formatString (args.map fun a => render a.1 a.2)) := by
  unfold Pretty.printEventMessage
  simp only
  rw [htags, c07_message_go (some tp) args (fun a ha => (hok a ha).1)
    (fun a ha pre rest => c07_render_append_pp (some tp) a.1 a.2 rest pre (hok a ha).1 (hok a ha).2.1 (hok a ha).2.2.1
      (hok a ha).2.2.2 (hns a ha))
    _ _ (Nat.lt_succ_self _) []]
  simp

/-- the same loop for ANY rendering function `r` that the visitor realises (`hvisit`), any accumulated output, any sufficient fuel -/
theorem c07_message_go_gen (r : Ty → Val → Bytes) (tp : Option TimePrinter) (args : List (Ty × Val))
    (hok : ∀ a ∈ args, TyOk a.1 = true)
    (hvisit : ∀ a ∈ args, ∀ pre rest, Visit.visit (toStringVisitor tp) (tag a.1) { out := pre } (encode a.1 a.2 ++ rest)
        = .ok ({ out := pre ++ r a.1 a.2 }, rest))
    (fuel : Nat) (fmt : Bytes) (hf : fmt.length < fuel) (pre : Bytes) :
    printEventMessage.go tp fuel fmt (tagList (args.map (·.1))) (args.map fun a => encode a.1 a.2).flatten { out := pre }
      = .ok { out := pre ++ substitute fmt (args.map fun a => r a.1 a.2) } := by
  induction fuel generalizing fmt args pre with
  | zero => omega
  | succ fuel ih =>
    match fmt with
    | [] => simp [printEventMessage.go, substitute]
    | [c] =>
      rw [printEventMessage.go]
      have : ¬ (c = 123 ∧ ([] : Bytes).head? = some 125) := by simp
      rw [if_neg this]
      cases fuel with
      | zero => simp at hf
      | succ f => simp [printEventMessage.go, substitute, Ts.write]
    | c :: d :: rest =>
      rw [printEventMessage.go]
      simp only [List.head?_cons, Option.some.injEq, List.drop_succ_cons, List.drop_zero]
      rw [substitute]
      by_cases hc : c = 123 ∧ d = 125
      · rw [if_pos hc, if_pos hc]
        match args with
        | [] =>
          simp only [List.map_nil, tagList_nil, tagPop_nil, List.flatten_nil, visit_nil]
          have := ih [] (by simp) (by simp) rest (by simp at hf; omega) pre
          simpa [tagList_nil] using this
        | a :: as =>
          simp only [List.map_cons, tagList_cons, List.flatten_cons,
            tagPop_tag a.1 (TyOkN.of_tyOk (hok a (by simp))), hvisit a (by simp)]
          have := ih as (fun x hx => hok x (by simp [hx])) (fun x hx => hvisit x (by simp [hx])) rest
            (by simp at hf; omega) (pre ++ r a.1 a.2)
          rw [this]
          simp [List.append_assoc]
      · rw [if_neg hc, if_neg hc]
        have := ih args hok hvisit (d :: rest) (by simp at hf ⊢; omega) (pre ++ [c])
        simp only [Ts.write]
        rw [this]
        simp [List.append_assoc]


/-- every struct of the type is either exactly one of binlog's own adapters that `PrettyPrinter::printStruct` prints
    specially (`binlog::address`, `std::filesystem::path`, `std::filesystem::directory_entry`, `std::error_code`) or is
    declined by `printStruct`; decidable by evaluation -/
abbrev SpecialOk (t : Ty) : Prop := specialOk t = true

/-- `c07_render_refines` for `bread`'s visitor (it has a pretty printer) and the documented rendering in which the
    adapters are printed specially (`renderPP`): addresses as `0x` + hex, paths / directory entries / error codes as
    their string — at any nesting depth, with the separators of the enclosing sequence or tuple -/
theorem c07_render_refines_special (pp : Pretty.TimePrinter) (full : Bytes) (t : Ty) (v : Val) (rest : Bytes) (maxRec : Nat)
    (hok : TyOk t = true) (hv : hasTy t v = true) (hd : depth t < maxRec)
    (hes : EmptyStructsOk full t) (hso : SpecialOk t) (s : Ts) (h0 : 0 ≤ s.seqDepth) (hf : s.emptyStruct = false) :
    ∃ s', Visit.visitImpl (toStringVisitor (some pp)) full maxRec (tag t) s (encode t v ++ rest) = .ok (s', rest)
      ∧ s'.out = s.out ++ separator s.state ++ renderPP t v
      ∧ s'.seqDepth = s.seqDepth ∧ s'.emptyStruct = false
      ∧ (s.state ≠ .normal → s.seqDepth ≠ 0 → s'.state = .seq)
      ∧ (s.state = .normal → s.seqDepth = 0 → s'.state = .normal) :=
  renderS_tag full pp t v maxRec s rest hok hv hd hes hso h0 hf

theorem c07_render_append_special (pp : Pretty.TimePrinter) (t : Ty) (v : Val) (rest : Bytes) (pre : Bytes)
    (hok : TyOk t = true) (hv : hasTy t v = true) (hd : depth t < 2048)
    (hes : EmptyStructsOk (tag t) t) (hso : SpecialOk t) :
    Visit.visit (toStringVisitor (some pp)) (tag t) { out := pre } (encode t v ++ rest)
      = .ok ({ out := pre ++ renderPP t v }, rest) := by
  obtain ⟨s', e, o, d, f, _, st⟩ :=
    c07_render_refines_special pp (tag t) t v rest 2048 hok hv hd hes hso { out := pre } (Int.le_refl 0) rfl
  have hst := st rfl rfl
  rw [Visit.visit, e]
  cases s' with
  | mk state seqDepth emptyStruct out =>
    simp only at o d f hst
    subst o d f hst
    simp [sepOf]

/-- **C07, message, as `bread` prints it, incl. binlog's own adapters**: the format string with each `{}` replaced by
    the documented rendering of the argument, where addresses, paths, directory entries and error codes — at any nesting
    depth — are printed as documented. -/
theorem c07_message_special (pp : Pretty.TimePrinter) (src : EventSource) (clock : Nat) (args : List (Ty × Val))
    (htags : src.argumentTags = tagList (args.map (·.1)))
    (hok : ∀ a ∈ args, TyOk a.1 = true ∧ hasTy a.1 a.2 = true ∧ depth a.1 < 2048 ∧ EmptyStructsOk (tag a.1) a.1)
    (hso : ∀ a ∈ args, SpecialOk a.1) :
    Pretty.printEventMessage (some pp) ⟨src, clock, (args.map fun a => encode a.1 a.2).flatten⟩
      = .ok (substitute src.formatString (args.map fun a => renderPP a.1 a.2)) := by
  unfold Pretty.printEventMessage
  simp only
  rw [htags, c07_message_go_gen renderPP (some pp) args (fun a ha => (hok a ha).1)
    (fun a ha pre rest => c07_render_append_special pp a.1 a.2 rest pre (hok a ha).1 (hok a ha).2.1 (hok a ha).2.2.1
      (hok a ha).2.2.2 (hso a ha))
    _ _ (Nat.lt_succ_self _) []]
  simp

/-- non-vacuity: `BINLOG_INFO("{} at {}", std::vector<std::filesystem::path>{"/a", "b"}, binlog::address(0x2A))` prints
    `[/a, b] at 0x2A` -/
def exSpArgs : List (Ty × Val) :=
  [(.seq (.struct nPath [(strBytes "str", .seq (.arith 99))]), .seq [.tup [.seq [.num 47, .num 97]], .tup [.seq [.num 98]]]),
   (.struct nAddress [(strBytes "value", .arith 76)], .tup [.num 42])]
example : (exSpArgs.map fun a => renderPP a.1 a.2) = [strBytes "[/a, b]", strBytes "0x2A"] := by
  simp only [exSpArgs, List.map, renderPP, renderPPAll, specialStruct, isCharTy, nPath, nAddress, strBytes_eq]
  decide
example : ∀ a ∈ exSpArgs, SpecialOk a.1 := by
  intro a ha
  simp only [exSpArgs, List.mem_cons, List.not_mem_nil, or_false] at ha
  rcases ha with rfl | rfl <;>
    simp only [SpecialOk, specialOk, specialOkFields, specialShape, nPath, nAddress, strBytes_eq] <;> decide

/-- non-vacuity: `BINLOG_INFO("a={} b={}!", int32_t(-2), std::string("hi"))` -/
def exMsgSrc : EventSource := { id := 1, formatString := [97, 61, 123, 125, 32, 98, 61, 123, 125, 33], argumentTags := [105, 91, 99] }
def exMsgArgs : List (Ty × Val) := [(.arith 105, .num 4294967294), (.seq (.arith 99), .seq [.num 104, .num 105])]

theorem exMsg_tags : exMsgSrc.argumentTags = tagList (exMsgArgs.map (·.1)) := by decide
theorem exMsg_ok : ∀ a ∈ exMsgArgs, TyOk a.1 = true ∧ hasTy a.1 a.2 = true ∧ depth a.1 < 2048 ∧ EmptyStructsOk (tag a.1) a.1 := by
  intro a ha
  simp only [exMsgArgs, List.mem_cons, List.not_mem_nil, or_false] at ha
  rcases ha with rfl | rfl
  · exact ⟨by decide, by simp [hasTy, arithSize], by decide, C06.c06_emptyStructsOk_of_noStructDef _ _ (by decide)⟩
  · exact ⟨by decide, by simp [hasTy, hasTyAll, arithSize], by decide, C06.c06_emptyStructsOk_of_noStructDef _ _ (by decide)⟩
theorem exMsg_bytes : (exMsgArgs.map fun a => encode a.1 a.2).flatten = [254, 255, 255, 255, 2, 0, 0, 0, 104, 105] := by
  simp [exMsgArgs, encode, encodeAll, arithSize, le]
theorem exMsg_renders : (exMsgArgs.map fun a => render a.1 a.2) = [intDec (-2), [104, 105]] := by
  simp [exMsgArgs, render, isCharTy, arithText, toSigned]

/-- the hypotheses hold and the message is `a=-2 b=hi!`, without … -/
example : Pretty.printEventMessage none ⟨exMsgSrc, 7, [254, 255, 255, 255, 2, 0, 0, 0, 104, 105]⟩
    = .ok (strBytes "a=-2 b=hi!") := by
  have h := c07_message exMsgSrc 7 exMsgArgs exMsg_tags exMsg_ok
  rw [exMsg_bytes] at h
  rw [h, exMsg_renders, intDec, strBytes_eq, strBytes_eq]
  congr 1

/-- … and with a pretty printer (any) -/
example (tp : TimePrinter) : Pretty.printEventMessage (some tp) ⟨exMsgSrc, 7, [254, 255, 255, 255, 2, 0, 0, 0, 104, 105]⟩
    = .ok (strBytes "a=-2 b=hi!") := by
  have h := c07_message_pp tp exMsgSrc 7 exMsgArgs exMsg_tags exMsg_ok (by decide)
  rw [exMsg_bytes] at h
  rw [h, exMsg_renders, intDec, strBytes_eq, strBytes_eq]
  congr 1

/-- `NoSpecialStruct` is decidable by evaluation (`strBytes_eq` makes the name literals computable):
    the struct example of C06 has no special struct, `std::error_code` is special -/
example : NoSpecialStruct C06.exT := by
  simp only [NoSpecialStruct, C06.exT, noSpecialStruct, noSpecialStructFields, noSpecialStructList, specialName,
    startsWith, strBytes_eq]
  decide
example : specialName (strBytes "std::error_code") = true := by
  simp only [specialName, startsWith, strBytes_eq]
  decide

/-! ## C07, reading back what the session wrote -/

export BinlogVerif.E2E (expectedItems EntryWf OpWf OpsWf SrcOk WpOk srcsAfter wpAfter csAfter)

/-- **C07, read back**: the items `bread` obtains from the bytes of a list of representable entries are
    the `expectedItems` of the structured entries (latest source definition / writer properties / clock sync
    before each event), and the stream ends without an error.
    `EntryWf` (Lemmas/E2E.lean): every field fits its machine type (`EventSource.Wf`, `WriterProp.Wf`,
    `ClockSync.Wf`, event clock < 2^64), the payload fits the 32-bit size prefix (`PayloadOk`), and the
    source id of an EVENT is < 2^63 (not a special tag).  Source ENTRIES only need an id < 2^64. -/
theorem c07_read_back (es : List Sess.Entry) (hwf : ∀ e ∈ es, EntryWf e) :
    Bread.itemsOf (Sess.writeBytes es) = expectedItems [] {} {} es :=
  E2E.read_back es hwf

/-- no entry has an empty payload: the reader never mistakes an entry for the end of the stream -/
theorem c07_payload_nonempty (e : Sess.Entry) : e.payload.isEmpty = false := E2E.payload_ne_nil e

/-- the bytes of an output (the concatenation of its `write` calls) are the framed entries in order -/
theorem c07_output_bytes (o : List Sess.Write) : (o.map Sess.writeBytes).flatten = Sess.writeBytes o.flatten := by
  induction o with
  | nil => rfl
  | cons w ws ih => simp only [List.map_cons, List.flatten_cons, ih, C11.writeBytes_append]

/-- "latest" made explicit for the writer properties and clock sync an item carries -/
theorem c07_latest_writerProp (wp w : WriterProp) (a b : List Sess.Entry) (hb : ∀ w', Sess.Entry.writerProp w' ∉ b) :
    wpAfter wp (a ++ Sess.Entry.writerProp w :: b) = w := E2E.wpAfter_last wp w a b hb
theorem c07_latest_clockSync (cs c : ClockSync) (a b : List Sess.Entry) (hb : ∀ c', Sess.Entry.clockSync c' ∉ b) :
    csAfter cs (a ++ Sess.Entry.clockSync c :: b) = c := E2E.csAfter_last cs c a b hb

/-- **C07 end to end**: for every reachable session state (any interleaving of registrations, log calls,
    consumes and rotations, any consume oracle), `bread -f fmt -d dateFmt` on the bytes of any output prints
    exactly, in the order the events were consumed into that output, one text per event: `renderEvent` of the
    event with THE source registered under its id in this session, the writer properties written before its
    batch and the latest clock sync; and no stream error.

    Hypotheses beyond `TraceOk`:
     * `OpsWf cs0 ops`: the data of the operations fit their machine types / the size prefix;
     * `hids` (FORCED): `addSource` overwrites the id with `nextSourceId`, nothing in the model bounds the number
       of registrations; an id ≥ 2^63 would be read as a special entry tag.  Stated on the final state
       (`nextSourceId` only grows).
     * `hbatch` (FORCED): `consume` writes `batchSize := byte length of the batch`; the model's queues are
       unbounded lists, so the 64-bit field needs the bound as a hypothesis (the real queue capacity is a
       `size_t`).  Stated on the writer-description entries of the final outputs. -/
theorem c07_end_to_end (cs0 : ClockSync) (ops : List Sess.Op) (s : Sess.Session)
    (hok : Sess.TraceOk (Sess.init cs0) ops) (hrun : Sess.exec (Sess.init cs0) ops = some s) (hwf : OpsWf cs0 ops)
    (hids : s.nextSourceId ≤ 2^63)
    (hbatch : ∀ o ∈ s.outputs, ∀ w, Sess.Entry.writerProp w ∈ o.flatten → w.batchSize < 2^64)
    (fmt dateFmt : Bytes) :
    ∀ o ∈ s.outputs,
      Bread.run false fmt dateFmt (Sess.writeBytes o.flatten)
        = (let (ls, err) := Bread.printUntilError fmt dateFmt (expectedItems [] {} {} o.flatten)
           ((ls.map (·.2)).flatten, err))
      ∧ (∀ it ∈ expectedItems [] {} {} o.flatten, it.isError = false)
      ∧ (∀ pre post sid clock args, o.flatten = pre ++ Sess.Entry.event sid clock args :: post →
          ∃ src, Sess.Entry.source src ∈ s.sources ∧ src.id = sid
            ∧ (∀ src', Sess.Entry.source src' ∈ s.sources → src'.id = sid → src' = src)
            ∧ Sess.Entry.source src ∈ pre
            ∧ expectedItems [] {} {} o.flatten =
                expectedItems [] {} {} pre
                  ++ Item.event ⟨src, clock, args⟩ (wpAfter {} pre) (csAfter {} pre)
                  :: expectedItems (srcsAfter [] pre) (wpAfter {} pre) (csAfter {} pre) post) := by
  obtain ⟨hm, hw⟩ := E2E.invs_exec (Sess.init cs0) ops s (Sess.metaInv_init cs0) (E2E.wfInv_init cs0 hwf.1) hok hwf.2 hrun
  intro o ho
  have hentries : ∀ e ∈ o.flatten, EntryWf e := by
    intro e he
    obtain ⟨w, hwo, hew⟩ := List.mem_flatten.mp he
    exact (hw.outs o ho w hwo e hew).1.wf hids (fun w' heq => hbatch o ho w' (heq ▸ he))
  have hsrc := C03.c03_source_before_event cs0 ops s hok hrun o ho
  refine ⟨?_, ?_, ?_⟩
  · unfold Bread.run
    rw [c07_read_back _ hentries]
    rfl
  · apply E2E.expectedItems_noError
    intro pre post sid clock args hl
    obtain ⟨⟨src, hmem, hid⟩, _⟩ := hsrc pre post sid clock args hl
    exact ⟨src, .inr hmem, hid⟩
  · intro pre post sid clock args hl
    obtain ⟨⟨src0, hmem0, hid0⟩, _⟩ := hsrc pre post sid clock args hl
    have hin : src0 ∈ srcsAfter [] pre := (E2E.mem_srcsAfter [] pre src0).mpr (.inr hmem0)
    cases hf : (srcsAfter [] pre).find? (fun x => x.id == sid) with
    | none =>
      have := List.find?_eq_none.mp hf src0 hin
      simp [hid0] at this
    | some src =>
      have hsid : src.id = sid := by simpa using List.find?_some hf
      have hpre : Sess.Entry.source src ∈ pre := by
        have := (E2E.mem_srcsAfter [] pre src).mp (List.mem_of_find?_eq_some hf)
        simpa using this
      have hfl : Sess.Entry.source src ∈ o.flatten := by rw [hl]; exact List.mem_append_left _ hpre
      obtain ⟨w, hwo, hew⟩ := List.mem_flatten.mp hfl
      have hss : Sess.Entry.source src ∈ s.sources := (hw.outs o ho w hwo _ hew).2 rfl
      refine ⟨src, hss, hsid, ?_, hpre, ?_⟩
      · intro src' hs' hid'
        exact E2E.source_unique s.sources (C03.c03_ids_distinct cs0 ops s hok hrun).1 src' src hs' hss (by rw [hid', hsid])
      · rw [hl, E2E.expectedItems_at, hf]

/-! non-vacuity: the trace of C03 (two writers, the same statement registered twice, consumes with stale
    polls, a rotation) satisfies all hypotheses of `c07_end_to_end`; the expected items of its two outputs -/

example : OpsWf {} C03.exOps := by
  refine ⟨⟨by simp [ClockSync.Wf], by simp [PayloadOk, clockSyncPayload, encClockSync, encStr]⟩, ?_⟩
  intro op hop
  simp only [C03.exOps, List.mem_cons, List.not_mem_nil, or_false] at hop
  rcases hop with rfl | rfl | rfl | rfl | rfl | rfl | rfl | rfl | rfl | rfl | rfl <;>
    simp [OpWf, SrcOk, PayloadOk, sourcePayload, encSource, encStr, eventPayload]

example : Sess.TraceOk (Sess.init {}) C03.exOps := by
  simp [C03.exOps, Sess.TraceOk, Sess.OpOk, Sess.step, Sess.init, Sess.lookupWriter, Sess.newChan, Sess.setWriter,
    Sess.updChan, Sess.consume, Sess.reconsumeMetadata, Sess.emitAll]

/-- summary of an item: source id, clock, batch size of the writer description it is reported with -/
def itemSummary : Item → Nat × Nat × Nat
  | .event e wp _ => (e.source.id, e.clockValue, wp.batchSize)
  | .error _ => (0, 0, 0)

/-- `hids` and `hbatch` as a Boolean, and the item summaries per output -/
def exCheck (s : Sess.Session) : Bool × List (List (Nat × Nat × Nat)) :=
  (decide (s.nextSourceId ≤ 2^63) &&
    s.outputs.all (fun o => o.flatten.all fun e =>
      match e with | .writerProp w => decide (w.batchSize < 2^64) | _ => true),
   s.outputs.map (fun o => (expectedItems [] {} {} o.flatten).map itemSummary))

example : (Sess.exec (Sess.init {}) C03.exOps).map exCheck
    = some (true, [[(1, 10, 20), (2, 11, 20)], [(1, 12, 20)]]) := by decide

end BinlogVerif.C07
