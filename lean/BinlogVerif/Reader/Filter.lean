import BinlogVerif.Reader.EventStream
/-
  Model of include/binlog/EventFilter.hpp (`EventFilter::writeAllowed`), and of the two
  printing loops of bin/printers.cpp at the level of items (`printEvents`, `printSortedEvents`).

  The allowed-id set is modelled as its characteristic function `Nat → Bool`.
-/
namespace BinlogVerif

abbrev IdSet := Nat → Bool

def IdSet.empty : IdSet := fun _ => false
def IdSet.set (s : IdSet) (id : Nat) (b : Bool) : IdSet := fun k => if k = id then b else s k

/-- Body of the `while` loop for one entry payload: is the entry written, and the new id set.
    An event source whose predicate is false *removes* its id (so that the most recent definition
    decides, as C16 requires). -/
def filterEntry (pred : EventSource → Bool) (allowed : IdSet) (payload : Bytes) :
    Outcome (Bool × IdSet) := do
  let (tag, body) ← readU 8 payload
  if isSpecial tag then
    if tag = tagEventSource then
      let (src, _) ← decSource body
      return (true, allowed.set src.id (pred src))
    else return (true, allowed)
  else return (allowed tag, allowed)

/-- `writeAllowed` on a buffer: bytes written so far, the id set, the returned byte count
    (`totalWriteSize`) and the exception (if any) that ended the call.
    Fuel-recursive; `r.length + 1` always suffices. -/
def writeAllowedFuel (pred : EventSource → Bool) :
    Nat → IdSet → Bytes → Bytes × IdSet × Nat × Option Err
  | 0, allowed, _ => ([], allowed, 0, none)
  | fuel+1, allowed, r =>
    if r.isEmpty then ([], allowed, 0, none) else
    match readU 4 r with
    | .error e => ([], allowed, 0, some e)
    | .ok (size, r1) =>
      match takeN size r1 with
      | .error e => ([], allowed, 0, some e)
      | .ok (payload, r2) =>
        match filterEntry pred allowed payload with
        | .error e => ([], allowed, 0, some e)
        | .ok (pass, allowed') =>
          let (out, allowed'', total, err) := writeAllowedFuel pred fuel allowed' r2
          if pass then (r.take (4 + size) ++ out, allowed'', (size + 4) + total, err)
          else (out, allowed'', total, err)

def writeAllowed (pred : EventSource → Bool) (allowed : IdSet) (r : Bytes) :
    Bytes × IdSet × Nat × Option Err :=
  writeAllowedFuel pred (r.length + 1) allowed r

/-- the filter on a list of payloads (no exception case): payloads written and final set -/
def filterAll (pred : EventSource → Bool) : IdSet → List Bytes → List Bytes × IdSet
  | allowed, [] => ([], allowed)
  | allowed, p :: ps =>
    match filterEntry pred allowed p with
    | .error _ => ([], allowed)
    | .ok (pass, allowed') =>
      let (out, a) := filterAll pred allowed' ps
      (if pass then p :: out else out, a)

/-! ### printing loops of bin/printers.cpp, over items -/

/-- a printed line with the clock it is sorted by -/
abbrev Line (T : Type) := Nat × T

/-- `printEvents`: print each event as it is read; an exception ends the loop (exit status 3). -/
def printUnsorted {T} (render : Event → WriterProp → ClockSync → T) : List Item → List (Line T) × Option Err
  | [] => ([], none)
  | .error e :: _ => ([], some e)
  | .event ev wp cs :: rest =>
    let (ls, err) := printUnsorted render rest
    ((ev.clockValue, render ev wp cs) :: ls, err)

/-- `printSortedEvents`: buffer `(clock, text)`, `std::stable_sort` by clock, print.  On an
    exception the readable events are still sorted and printed before it propagates. -/
def printSorted {T} (render : Event → WriterProp → ClockSync → T) (items : List Item) :
    List (Line T) × Option Err :=
  let (ls, err) := printUnsorted render items
  (ls.mergeSort (fun a b => a.1 ≤ b.1), err)

end BinlogVerif
