import BinlogVerif.Reader.Filter
import BinlogVerif.Reader.Bread
import BinlogVerif.Reader.Recovery
/-
  Line-protocol glue for the reader family: canonical text of model results, so that the C++
  harness (running the real code) and the Lean driver (running the model) can be diffed.
  Nothing here is used by a theorem.
-/
namespace BinlogVerif.Proto
open BinlogVerif

def hex (b : Bytes) : String := b.toHex

def splitOn (s : String) (sep : String) : List String := (s.splitOn sep)

def parseHexList (s : String) : Option (List Bytes) :=
  if s == "-" then some [] else (splitOn s ",").mapM (fun h => if h == "" then some [] else Bytes.ofHex h)

def showSource (s : EventSource) : String :=
  s!"{s.id},{s.severity},{hex s.category},{hex s.function},{hex s.file},{s.line},{hex s.formatString},{hex s.argumentTags}"

def showItem : Item → String
  | .event e wp cs =>
    s!"E({showSource e.source}|{e.clockValue}|{hex e.arguments}|{wp.id},{hex wp.name},{wp.batchSize}|{cs.clockValue},{cs.clockFrequency},{cs.nsSinceEpoch},{cs.tzOffset},{hex cs.tzName})"
  | .error e => s!"X({e.code})"

def showTail : Tail → String
  | .clean => "clean"
  | .truncSize => "trunc-size"
  | .truncPayload => "trunc-payload"

def showItems (items : List Item) : String := ";".intercalate (items.map showItem)

/-- stream position after the first empty payload (size-0 entry), if any -/
def stopPos : List Bytes → Nat → Option Nat
  | [], _ => none
  | p :: ps, pos => if p.isEmpty then some (pos + 4) else stopPos ps (pos + 4 + p.length)

/-- `readall <hex>`: continuing reader over an istream entry stream -/
def cmdReadAll (file : Bytes) : String :=
  let (ps, consumed, tail) := splitEntries file
  let items := readAll {} ps
  -- a size-0 entry makes `nextEvent` return null: the read ends there
  match stopPos ps 0 with
  | some pos =>
    let tailS := if pos == file.length then "clean" else "stopped"
    s!"items={showItems items} tail={tailS} consumed={pos}"
  | none => s!"items={showItems items} tail={showTail tail} consumed={consumed}"

/-- `resume <hex>,<hex>,...`: the stream grows piece by piece; after each piece the reader runs
    to eof/error; the entry-stream position is carried over. -/
def cmdResume (pieces : List Bytes) : String :=
  let rec go (st : ReaderState) (pending : Bytes) (pos : Nat) (acc : List Item) (stopped : Bool) :
      List Bytes → List Item × Nat × Bool
    | [] => (acc, pos, stopped)
    | pc :: rest =>
      if stopped then go st pending pos acc stopped rest else
      let buf := pending ++ pc
      let (ps, consumed, _) := splitEntries buf
      let items := readAll st ps
      let (st', stp) := runState st ps
      go st' (buf.drop consumed) (pos + consumed) (acc ++ items) stp rest
  let (items, pos, stopped) := go {} [] 0 [] false pieces
  s!"items={showItems items} pos={if stopped then 0 else pos} stopped={stopped}"

/-! predicates over source fields: a small language shared with the harness -/
inductive Pred where
  | sevGe (n : Nat)
  | catEq (c : Bytes)
  | lineMod (m k : Nat)
  | fnPrefix (p : Bytes)
  | all
  | none

def Pred.eval : Pred → EventSource → Bool
  | .sevGe n, s => s.severity ≥ n
  | .catEq c, s => s.category == c
  | .lineMod m k, s => m != 0 && s.line % m == k
  | .fnPrefix p, s => p.isPrefixOf s.function
  | .all, _ => true
  | .none, _ => false

def parsePred (s : String) : Option Pred :=
  match splitOn s ":" with
  | ["sev", n] => n.toNat?.map .sevGe
  | ["cat", c] => (if c == "" then some [] else Bytes.ofHex c).map .catEq
  | ["line", m, k] => do pure (.lineMod (← m.toNat?) (← k.toNat?))
  | ["fn", p] => (if p == "" then some [] else Bytes.ofHex p).map .fnPrefix
  | ["all"] => some .all
  | ["none"] => some .none
  | _ => none

/-- `filter <pred> <chunk>,<chunk>,...` -/
def cmdFilter (pred : Pred) (chunks : List Bytes) : String :=
  let rec go (allowed : IdSet) (out : Bytes) (totals : List Nat) (i : Nat) : List Bytes → Bytes × List Nat × String
    | [] => (out, totals, "-")
    | c :: rest =>
      let (o, a, total, err) := writeAllowed pred.eval allowed c
      match err with
      | some e => (out ++ o, totals, s!"{e.code}@{i}")
      | none => go a (out ++ o) (totals ++ [total]) (i + 1) rest
  let (out, totals, err) := go IdSet.empty [] [] 0 chunks
  s!"out={hex out} totals={",".intercalate (totals.map toString)} err={err}"

/-- `segmap e<k>:<v> f<k> ...` -/
def cmdSegMap (ops : List String) : String :=
  let step (acc : SegMap Nat × List String) (op : String) : SegMap Nat × List String :=
    let (m, outs) := acc
    if op.startsWith "e" then
      match splitOn (op.drop 1).toString ":" with
      | [k, v] =>
        match k.toNat?, v.toNat? with
        | some k, some v => (m.emplace k v, outs)
        | _, _ => (m, outs ++ ["bad-op"])
      | _ => (m, outs ++ ["bad-op"])
    else if op.startsWith "f" then
      match (op.drop 1).toString.toNat? with
      | some k => (m, outs ++ [match m.find k with | some v => toString v | none => "none"])
      | none => (m, outs ++ ["bad-op"])
    else (m, outs ++ ["bad-op"])
  let (m, outs) := ops.foldl step (SegMap.empty, [])
  let (offs, segs) := m.toVectors
  let segS := "|".intercalate (segs.map fun s => ",".intercalate (s.map toString))
  s!"finds={",".intercalate outs} offsets={",".intercalate (offs.map toString)} segments={segS} size={m.size}"

def severityString (sev : Nat) : String :=
  if sev == 32 then "TRAC" else if sev == 64 then "DEBG" else if sev == 128 then "INFO"
  else if sev == 256 then "WARN" else if sev == 512 then "ERRO" else if sev == 1024 then "CRIT"
  else if sev == 32768 then "NOLG" else "UNKW"

def strBytes (s : String) : Bytes := s.toUTF8.toList

/-- the text `bread -f "%r %I %S %n %t %L"` prints for an event (plus newline) -/
def renderSimple (e : Event) (wp : WriterProp) (_ : ClockSync) : Bytes :=
  strBytes (toString e.clockValue) ++ [32] ++ strBytes (toString e.source.id) ++ [32]
    ++ strBytes (severityString e.source.severity) ++ [32] ++ wp.name ++ [32]
    ++ strBytes (toString wp.id) ++ [32] ++ strBytes (toString e.source.line) ++ [10]

/-- `print <sorted:0|1> <hex>`: what `printEvents` / `printSortedEvents` write and whether they throw -/
def cmdPrint (sorted : Bool) (file : Bytes) : String :=
  let (ps, _, tail) := splitEntries file
  let items := readAll {} ps
  let stopped := (runState {} ps).2
  let items := if stopped then items else
    match tail with
    | .clean => items
    | .truncSize => items ++ [.error .truncSize]
    | .truncPayload => items ++ [.error .truncPayload]
  let (lines, err) := if sorted then printSorted renderSimple items else printUnsorted renderSimple items
  let text := (lines.map (·.2)).flatten
  s!"text={hex text} err={match err with | some e => e.code | none => "-"}"

def parseClockSync (s : String) : Option ClockSync :=
  match splitOn s "," with
  | [a, b, c, d, e] => do
    let name ← if e == "" then some [] else Bytes.ofHex e
    pure { clockValue := ← a.toNat?, clockFrequency := ← b.toNat?, nsSinceEpoch := ← c.toNat?, tzOffset := ← d.toNat?, tzName := name }
  | _ => none

def showOutcome : Outcome Bytes → String
  | .ok b => hex b
  | .error e => s!"ERR:{e.code}"

/-- `time <dateFmt hex> <clock,freq,ns,tzraw,tzname hex> <clock>` -/
def cmdTime (dateFmt : Bytes) (cs : ClockSync) (clock : Nat) : String :=
  s!"local={showOutcome (Time.printLocal dateFmt cs clock)} utc={showOutcome (Time.printUTC dateFmt cs clock)}"

/-- `timeseq <dateFmt hex> <cs>/<clock> <cs>/<clock> …`: ONE pretty printer prints the instants one after the other, each under
    its own clock sync; what is printed for an instant does not depend on the ones printed before it -/
def cmdTimeSeq (dateFmt : Bytes) (items : List (ClockSync × Nat)) : String :=
  let locals := items.map fun x => showOutcome (Time.printLocal dateFmt x.1 x.2)
  let utcs := items.map fun x => showOutcome (Time.printUTC dateFmt x.1 x.2)
  s!"local={",".intercalate locals} utc={",".intercalate utcs}"

/-- `bread <sorted> <fmt hex> <dateFmt hex> <file hex>` -/
def cmdBread (sorted : Bool) (fmt dateFmt file : Bytes) : String :=
  let (text, err) := Bread.run sorted fmt dateFmt file
  s!"text={hex text} err={match err with | some e => e.code | none => "-"}"

/-- `textout <fmt hex> <dateFmt hex> <chunk hex>,<chunk hex>,…`: ONE TextOutputStream, `write` once per chunk -/
def cmdTextOut (fmt dateFmt : Bytes) (chunks : List Bytes) : String :=
  let step (acc : ReaderState × Bytes × List String) (chunk : Bytes) : ReaderState × Bytes × List String :=
    let (st, text, errs) := acc
    let r := Bread.textOutWrite fmt dateFmt st text chunk
    (r.1, r.2.1, errs ++ [match r.2.2 with | some e => e.code | none => "-"])
  let (_, text, errs) := chunks.foldl step ({}, [], [])
  s!"text={hex text} errs={",".intercalate errs}"

/-- `recover <image hex>` -/
def cmdRecover (image : Bytes) : String :=
  match Recovery.recover image with
  | .ok out => s!"out={hex out}"
  | .error e => s!"out=ERR:{e.code}"

end BinlogVerif.Proto
