import BinlogVerif.Reader.Entries
import BinlogVerif.Reader.SegMap
/-
  Model of include/binlog/EntryStream.cpp and include/binlog/EventStream.cpp.

  `splitEntries` models both entry streams (`IstreamEntryStream` over a seekable istream and
  `RangeEntryStream`): the list of whole payloads, how many bytes they span, and how the input
  ends.  `ReaderState`/`processEntry` model `EventStream::nextEvent`'s body for one payload:
  deserialise into a temporary, commit on success.
-/
namespace BinlogVerif

/-! ### entry streams -/

/-- how an entry stream ends -/
inductive Tail where
  | clean          -- end of input on an entry boundary
  | truncSize      -- 1..3 bytes left: "Failed to read entry size" (istream) / Range overflow
  | truncPayload   -- size field present, payload cut
deriving Repr, DecidableEq, Inhabited

/-- One `nextEntryPayload` call on the remaining input.
    `none` = eof (no bytes); otherwise the payload and the rest, or the error (input position
    unchanged: the istream version rewinds, the range version is abandoned by the caller). -/
def nextEntry (r : Bytes) : Option (Except Tail (Bytes × Bytes)) :=
  if r.isEmpty then none
  else if r.length < 4 then some (.error .truncSize)
  else
    let size := unle (r.take 4)
    let r' := r.drop 4
    if size ≤ r'.length then some (.ok (r'.take size, r'.drop size))
    else some (.error .truncPayload)

/-- All whole entries of the input, the number of bytes they occupy, and the tail status.
    Fuel-recursive (each entry consumes ≥ 4 bytes, so `r.length` fuel always suffices). -/
def splitEntriesFuel : Nat → Bytes → List Bytes × Nat × Tail
  | 0, _ => ([], 0, .clean)
  | fuel+1, r =>
    match nextEntry r with
    | none => ([], 0, .clean)
    | some (.error t) => ([], 0, t)
    | some (.ok (p, rest)) =>
      let (ps, n, t) := splitEntriesFuel fuel rest
      (p :: ps, 4 + p.length + n, t)

def splitEntries (r : Bytes) : List Bytes × Nat × Tail := splitEntriesFuel (r.length + 1) r

/-- concatenation of framed payloads -/
def frames (ps : List Bytes) : Bytes := (ps.map frame).flatten

def PayloadOk (p : Bytes) : Prop := p.length < 2^32

theorem nextEntry_frame (p rest : Bytes) (h : PayloadOk p) :
    nextEntry (frame p ++ rest) = some (.ok (p, rest)) := by
  have h' : p.length < 256 ^ 4 := by simpa [PayloadOk] using h
  unfold nextEntry frame
  have hne : (le 4 p.length ++ p ++ rest).isEmpty = false := by
    cases hle : le 4 p.length with
    | nil => have := le_length 4 p.length; rw [hle] at this; simp at this
    | cons a b => simp
  have hlen : ¬ (le 4 p.length ++ p ++ rest).length < 4 := by simp
  simp only [hne, hlen, if_false, Bool.false_eq_true]
  have htake : (le 4 p.length ++ p ++ rest).take 4 = le 4 p.length := by
    rw [List.append_assoc, List.take_append_of_le_length (by simp)]
    simp [List.take_of_length_le]
  have hdrop : (le 4 p.length ++ p ++ rest).drop 4 = p ++ rest := by
    rw [List.append_assoc, List.drop_append_of_le_length (by simp)]
    simp [List.drop_of_length_le]
  rw [htake, hdrop, unle_le_of_lt 4 _ h']
  simp

/-! ### event stream -/

structure Event where
  source : EventSource
  clockValue : Nat
  arguments : Bytes
deriving Repr, DecidableEq, Inhabited

structure ReaderState where
  sources : SegMap EventSource := SegMap.empty
  writerProp : WriterProp := {}
  clockSync : ClockSync := {}
deriving Repr, Inhabited

/-- What one payload does to the reader.  `skip` covers metadata entries and ignored unknown
    special entries; `stop` is the empty payload (`if (range.empty()) return nullptr`). -/
inductive EntryResult where
  | stop
  | skip
  | event (e : Event)
deriving Repr, DecidableEq, Inhabited

/-- Body of the loop in `EventStream::nextEvent` for one payload, as one exception-monad
    computation returning the result and the *new* state.  Every `read*` helper of the code
    deserialises into a local and commits afterwards, so an exception leaves no partial state. -/
def processEntryCore (st : ReaderState) (payload : Bytes) : Outcome (EntryResult × ReaderState) := do
  if payload.isEmpty then return (.stop, st)
  let (tag, body) ← readU 8 payload
  if isSpecial tag then
    if tag = tagEventSource then
      let (src, _) ← decSource body
      return (.skip, { st with sources := st.sources.emplace src.id src })
    else if tag = tagWriterProp then
      let (wp, _) ← decWriterProp body
      return (.skip, { st with writerProp := wp })
    else if tag = tagClockSync then
      let (cs, _) ← decClockSync body
      return (.skip, { st with clockSync := cs })
    else return (.skip, st)            -- unknown special entries are ignored
  else
    match st.sources.find tag with
    | none => throw .invalidSource
    | some src =>
      let (clock, args) ← readU 8 body
      return (.event ⟨src, clock, args⟩, st)

/-- On `error` the state is the old one (temporary-then-commit). -/
def processEntry (st : ReaderState) (payload : Bytes) : Outcome EntryResult × ReaderState :=
  match processEntryCore st payload with
  | .ok (r, st') => (.ok r, st')
  | .error e => (.error e, st)

/-- what a reader loop observes per entry -/
inductive Item where
  | event (e : Event) (wp : WriterProp) (cs : ClockSync)
  | error (e : Err)
deriving Repr, DecidableEq, Inhabited

/-- one reader-loop iteration: `none` = `nextEvent` returned null (empty payload) -/
def stepEntry (st : ReaderState) (p : Bytes) : Option (List Item × ReaderState) :=
  match processEntry st p with
  | (.ok .stop, _) => none
  | (.ok .skip, st') => some ([], st')
  | (.ok (.event e), st') => some ([.event e st'.writerProp st'.clockSync], st')
  | (.error e, st') => some ([.error e], st')

/-- A reader that keeps calling `nextEvent` after exceptions (as the unit tests
    `continue_after_event_invalid_*` do), until `nextEvent` returns null. -/
def readAll : ReaderState → List Bytes → List Item
  | _, [] => []
  | st, p :: ps =>
    match stepEntry st p with
    | none => []
    | some (items, st') => items ++ readAll st' ps

/-- state after processing `ps` with a continuing reader, and whether a `stop` payload occurred -/
def runState : ReaderState → List Bytes → ReaderState × Bool
  | st, [] => (st, false)
  | st, p :: ps =>
    match stepEntry st p with
    | none => (st, true)
    | some (_, st') => runState st' ps

def Item.isError : Item → Bool
  | .error _ => true
  | _ => false

/-- A reader that stops at the first exception (as `bread`'s `printEvents` does):
    the items up to and including the first error. -/
def untilError : List Item → List Item
  | [] => []
  | .error e :: _ => [.error e]
  | it :: rest => it :: untilError rest

def readUntilError (st : ReaderState) (ps : List Bytes) : List Item := untilError (readAll st ps)

end BinlogVerif
