import BinlogVerif.Mser.Visit
import BinlogVerif.Reader.EventStream
/-
  Model of include/binlog/ToStringVisitor.cpp, PrettyPrinter.cpp (event and message printing)
  and the number formatting of detail/OstreamBuffer.cpp.

  `snprintf("%.16g")` is an external call: `FloatFmt` is its contract (exact binary value rounded
  half-even to 16 significant digits, then C `%g` layout), validated against the real libc by the
  correspondence streams, not proved.  The time printers are a parameter here (`TimePrinter`), the
  model of Time.cpp / the date format lives in `Reader/Time.lean`.
-/
namespace BinlogVerif.Pretty
open BinlogVerif BinlogVerif.Tag BinlogVerif.Visit

def strBytes (s : String) : Bytes := s.toUTF8.toList

def natDec (n : Nat) : Bytes := strBytes (toString n)

/-- two's complement value of an `bits`-bit pattern -/
def toSigned (bits : Nat) (raw : Nat) : Int :=
  if raw ≥ 2 ^ (bits - 1) then (raw : Int) - (2 ^ bits : Nat) else raw

def intDec (i : Int) : Bytes := strBytes (toString i)

/-! ### "%.16g" -/
namespace FloatFmt

/-- round-half-even of `num / den` (den > 0) -/
def roundDiv (num den : Nat) : Nat :=
  let q := num / den
  let r := num % den
  if 2 * r > den then q + 1 else if 2 * r < den then q else (if q % 2 = 0 then q else q + 1)

/-- largest X with 10^X ≤ num/den, searching down from `hi` (assumes num > 0) -/
def floorLog10 (num den : Nat) : Int :=
  -- value = num/den; find X ∈ [-5000, 5000]
  let rec up (fuel : Nat) (x : Nat) : Nat :=       -- num/den ≥ 10^x ?
    match fuel with
    | 0 => x
    | f + 1 => if num ≥ den * 10 ^ (x + 1) then up f (x + 1) else x
  let rec down (fuel : Nat) (x : Nat) : Nat :=     -- smallest x with num*10^x ≥ den
    match fuel with
    | 0 => x
    | f + 1 => if num * 10 ^ x ≥ den then x else down f (x + 1)
  if num ≥ den then (up 5000 0 : Nat) else -((down 5200 0 : Nat) : Int)

/-- decimal digits of n, at least one -/
def digits (n : Nat) : Bytes := natDec n

def stripTrailingZeros (b : Bytes) : Bytes := (b.reverse.dropWhile (· == 48)).reverse

/-- `%.16g` of the positive exact value num/den -/
def fmtPos (num den : Nat) : Bytes :=
  let x0 := floorLog10 num den
  -- D = round(value / 10^(x0-15)), 16 digits
  let sc : Int := 15 - x0
  let d := if sc ≥ 0 then roundDiv (num * 10 ^ sc.toNat) den else roundDiv num (den * 10 ^ (-sc).toNat)
  let (d, x) := if d ≥ 10 ^ 16 then (d / 10, x0 + 1) else (d, x0)
  let ds := digits d            -- exactly 16 digits
  if x < -4 ∨ x ≥ 16 then
    let frac := stripTrailingZeros (ds.drop 1)
    let mant := ds.take 1 ++ (if frac.isEmpty then [] else 46 :: frac)
    let ex := x.natAbs
    let exs := if ex < 10 then 48 :: natDec ex else natDec ex
    mant ++ [101, (if x < 0 then 45 else 43)] ++ exs
  else if x ≥ 0 then
    let ip := ds.take (x.toNat + 1)
    let frac := stripTrailingZeros (ds.drop (x.toNat + 1))
    ip ++ (if frac.isEmpty then [] else 46 :: frac)
  else
    -- 0.000ddd
    let zeros := List.replicate ((-x).toNat - 1) (48 : UInt8)
    let frac := stripTrailingZeros (zeros ++ ds)
    [48, 46] ++ frac

/-- `%.16g` of an IEEE binary64 bit pattern -/
def g16Double (raw : Nat) : Bytes :=
  let sign : Nat := raw / 2 ^ 63 % 2
  let e : Nat := raw / 2 ^ 52 % 2048
  let m : Nat := raw % 2 ^ 52
  let s : Bytes := if sign = 1 then [45] else []
  if e = 2047 then (if m = 0 then s ++ strBytes "inf" else s ++ strBytes "nan")
  else if e = 0 ∧ m = 0 then s ++ [48]
  else
    let (mant, ex) : Nat × Int := if e = 0 then (m, -1074) else (m + 2 ^ 52, (e : Int) - 1075)
    let (num, den) := if ex ≥ 0 then (mant * 2 ^ ex.toNat, 1) else (mant, 2 ^ (-ex).toNat)
    s ++ fmtPos num den

/-- a binary32 pattern widened to double, then `%.16g` -/
def g16Float (raw : Nat) : Bytes :=
  let sign : Nat := raw / 2 ^ 31 % 2
  let e : Nat := raw / 2 ^ 23 % 256
  let m : Nat := raw % 2 ^ 23
  let s : Bytes := if sign = 1 then [45] else []
  if e = 255 then (if m = 0 then s ++ strBytes "inf" else s ++ strBytes "nan")
  else if e = 0 ∧ m = 0 then s ++ [48]
  else
    let (mant, ex) : Nat × Int := if e = 0 then (m, -149) else (m + 2 ^ 23, (e : Int) - 150)
    let (num, den) := if ex ≥ 0 then (mant * 2 ^ ex.toNat, 1) else (mant, 2 ^ (-ex).toNat)
    s ++ fmtPos num den

/-- `%.16Lg` of an x87 80-bit extended pattern (low 80 bits of the 16-byte object);
    every 80-bit pattern is modelled, incl. the invalid encodings a hostile log can contain -/
def g16LongDouble (raw : Nat) : Bytes :=
  let r : Nat := raw % 2 ^ 80
  let sign : Nat := r / 2 ^ 79 % 2
  let e : Nat := r / 2 ^ 64 % 32768
  let m : Nat := r % 2 ^ 64
  let s : Bytes := if sign = 1 then [45] else []
  -- encodings with a non-zero exponent and the explicit integer bit clear (unnormals, pseudo-infinity, pseudo-NaN) are
  -- invalid operands of the x87: glibc classifies them as NaN (checked against the real snprintf by the harness)
  if e = 32767 then (if m = 2 ^ 63 then s ++ strBytes "inf" else s ++ strBytes "nan")
  else if e ≠ 0 ∧ m < 2 ^ 63 then s ++ strBytes "nan"
  else if m = 0 then s ++ [48]
  else
    let ex : Int := (if e = 0 then (1 : Int) else (e : Int)) - 16383 - 63
    let (num, den) := if ex ≥ 0 then (m * 2 ^ ex.toNat, 1) else (m, 2 ^ (-ex).toNat)
    s ++ fmtPos num den

end FloatFmt

/-! ### ToStringVisitor -/

inductive TsState where | normal | seqBegin | seq
deriving DecidableEq, Repr, Inhabited

/-- how the producer-local / UTC time of an ns-since-epoch value or of a clock value is printed:
    supplied by the time model; `none` = the visitor has no pretty printer (`_pp == nullptr`) -/
structure TimePrinter where
  /-- print `sinceEpoch` (int64 ns) as a time point with the configured date format -/
  timePoint : Int → Outcome Bytes
  /-- `%d` -/
  localTime : Nat → Outcome Bytes
  /-- `%u` -/
  utcTime : Nat → Outcome Bytes

structure Ts where
  state : TsState := .normal
  seqDepth : Int := 0
  emptyStruct : Bool := false
  out : Bytes := []
deriving Inhabited

def Ts.write (s : Ts) (b : Bytes) : Ts := { s with out := s.out ++ b }

def Ts.comma (s : Ts) : Ts :=
  match s.state with
  | .seqBegin => { s with state := .seq }
  | .seq => s.write [44, 32]
  | .normal => s

def Ts.enterSeq (s : Ts) : Ts := { s with state := .seqBegin, seqDepth := s.seqDepth + 1 }
def Ts.leaveSeq (s : Ts) : Ts :=
  let d := s.seqDepth - 1
  { s with seqDepth := d, state := if d = 0 then .normal else .seq }

/-- text of an arithmetic leaf (`ToStringVisitor::visit(T)` → `OstreamBuffer::operator<<`) -/
def arithText (c : UInt8) (raw : Nat) : Bytes :=
  if c = 121 then (if raw % 256 = 0 then strBytes "false" else strBytes "true")
  else if c = 99 then [UInt8.ofNat raw]
  else if c = 98 then intDec (toSigned 8 raw)
  else if c = 115 then intDec (toSigned 16 raw)
  else if c = 105 then intDec (toSigned 32 raw)
  else if c = 108 then intDec (toSigned 64 raw)
  else if c = 66 ∨ c = 83 ∨ c = 73 ∨ c = 76 then natDec raw
  else if c = 102 then FloatFmt.g16Float raw
  else if c = 100 then FloatFmt.g16Double raw
  else if c = 68 then FloatFmt.g16LongDouble raw
  else []

def startsWith (s p : Bytes) : Bool := p.isPrefixOf s
def endsWith (s p : Bytes) : Bool := p.isSuffixOf s

/-- `PrettyPrinter::printStruct`: special rendering of well-known structs; `none` = not handled -/
def printStruct (tp : TimePrinter) (name tag : Bytes) (input : Bytes) : Outcome (Option (Bytes × Bytes)) :=
  if name = strBytes "binlog::address" ∧ tag = strBytes "`value'L" then
    match readU 8 input with
    | .error e => .error e
    | .ok (v, rest) => .ok (some (strBytes "0x" ++ hexDigitsUpper v, rest))
  else if name = strBytes "std::chrono::system_clock::time_point" ∧ tag = strBytes "`ns'l" then
    match readU 8 input with
    | .error e => .error e
    | .ok (v, rest) =>
      match tp.timePoint (toSigned 64 v) with
      | .error e => .error e
      | .ok t => .ok (some (t, rest))
  else
    let durSuffix : Option Bytes :=
      if startsWith name (strBytes "std::chrono::duration<Rep,") then
        if endsWith name (strBytes "std::nano>") then some (strBytes "ns")
        else if endsWith name (strBytes "std::micro>") then some (strBytes "us")
        else if endsWith name (strBytes "std::milli>") then some (strBytes "ms")
        else if endsWith name (strBytes "std::ratio<1>>") then some (strBytes "s")
        else if endsWith name (strBytes "std::ratio<60>>") then some (strBytes "m")
        else if endsWith name (strBytes "std::ratio<3600>>") then some (strBytes "h")
        else none
      else none
    let dur : Option (Outcome (Option (Bytes × Bytes))) :=
      match durSuffix with
      | none => none
      | some suf =>
        if tag = strBytes "`count'l" then
          some (match readU 8 input with
            | .error e => .error e
            | .ok (v, rest) => .ok (some (intDec (toSigned 64 v) ++ suf, rest)))
        else if tag = strBytes "`count'i" then
          some (match readU 4 input with
            | .error e => .error e
            | .ok (v, rest) => .ok (some (intDec (toSigned 32 v) ++ suf, rest)))
        else none
    match dur with
    | some r => r
    | none =>
      if (name = strBytes "std::filesystem::path" ∧ tag = strBytes "`str'[c")
        ∨ (name = strBytes "std::filesystem::directory_entry" ∧ tag = strBytes "`path'{std::filesystem::path`str'[c}")
        ∨ (name = strBytes "std::error_code" ∧ tag = strBytes "`message'[c") then
        match readU 4 input with
        | .error e => .error e
        | .ok (size, rest) =>
          match takeN size rest with
          | .error e => .error e
          | .ok (b, rest') => .ok (some (b, rest'))
      else .ok none

/-- the `ToStringVisitor` as a `Visitor` -/
def toStringVisitor (tp : Option TimePrinter) : Visitor Ts where
  handle s ev input :=
    match ev with
    | .arith c raw => .ok ((s.comma).write (arithText c raw), false, input)
    | .seqBegin size elemTag =>
      let s := s.comma
      if elemTag = [99] then
        match takeN size input with
        | .error e => .error e
        | .ok (b, rest) => .ok (s.write b, true, rest)
      else .ok ((s.write [91]).enterSeq, false, input)
    | .seqEnd => .ok ((s.write [93]).leaveSeq, false, input)
    | .tupBegin _ => .ok (((s.comma).write [40]).enterSeq, false, input)
    | .tupEnd => .ok ((s.write [41]).leaveSeq, false, input)
    | .varBegin _ _ => .ok (s, false, input)
    | .varEnd => .ok (s, false, input)
    | .null => .ok ((s.comma).write (strBytes "{null}"), false, input)
    | .enum _ enumerator _ value =>
      let s := s.comma
      if enumerator.isEmpty then .ok (s.write (strBytes "0x" ++ value), false, input)
      else .ok (s.write enumerator, false, input)
    | .structBegin name tag =>
      let s := s.comma
      let special : Outcome (Option (Bytes × Bytes)) :=
        match tp with
        | none => .ok none
        | some tp => printStruct tp name tag input
      match special with
      | .error e => .error e
      | .ok (some (text, rest)) => .ok (s.write text, true, rest)
      | .ok none =>
        let s := s.write (removePrefixBefore name cLt).1
        if tag.isEmpty then .ok ({ s with emptyStruct := true }, false, input)
        else .ok ((s.write [123, 32]).enterSeq, false, input)
    | .structEnd =>
      if s.emptyStruct then .ok ({ s with emptyStruct := false }, false, input)
      else .ok ((s.write [32, 125]).leaveSeq, false, input)
    | .fieldBegin name _ =>
      let s := s.comma
      let s := if name.isEmpty then s else s.write (name ++ [58, 32])
      .ok ({ s with state := .normal }, false, input)
    | .fieldEnd => .ok ({ s with state := .seq }, false, input)
    | .repeatBegin _ _ => .ok (s, false, input)
    | .repeatEnd size _ =>
      if size > 1 then .ok (s.write (strBytes " ... <repeats " ++ natDec size ++ strBytes " times>"), false, input)
      else .ok (s, false, input)

/-! ### PrettyPrinter -/

def severityText (sev : Nat) : Bytes :=
  strBytes (if sev = 32 then "TRAC" else if sev = 64 then "DEBG" else if sev = 128 then "INFO"
  else if sev = 256 then "WARN" else if sev = 512 then "ERRO" else if sev = 1024 then "CRIT"
  else if sev = 32768 then "NOLG" else "UNKW")

/-- `printFilename`: the part after the last `/` or `\` -/
def fileNameOf (path : Bytes) : Bytes :=
  let rec go : Bytes → Bytes → Bytes
    | [], acc => acc
    | c :: rest, acc => if c = 47 ∨ c = 92 then go rest [] else go rest (acc ++ [c])
  go path []

/-- `PrettyPrinter::printEventMessage`: the format string with each `{}` replaced by the rendering
    of the next argument.  One `ToStringVisitor` is shared by all arguments of the event. -/
def printEventMessage (tp : Option TimePrinter) (ev : Event) : Outcome Bytes :=
  let rec go : Nat → Bytes → Bytes → Bytes → Ts → Outcome Ts
    | 0, _, _, _, s => .ok s
    | fuel + 1, fmt, tags, args, s =>
      match fmt with
      | [] => .ok s
      | c :: rest =>
        if c = 123 ∧ rest.head? = some 125 then
          let (tag, tags') := tagPop tags
          match visit (toStringVisitor tp) tag s args with
          | .error e => .error e
          | .ok (s', args') => go fuel (rest.drop 1) tags' args' s'
        else go fuel rest tags args (s.write [c])
  match go (ev.source.formatString.length + 1) ev.source.formatString ev.source.argumentTags ev.arguments {} with
  | .error e => .error e
  | .ok s => .ok s.out

/-- `PrettyPrinter::printEventField` -/
def printEventField (tp : TimePrinter) (spec : UInt8) (ev : Event) (wp : WriterProp) : Outcome Bytes :=
  let src := ev.source
  if spec = 73 then .ok (natDec src.id)                 -- I
  else if spec = 83 then .ok (severityText src.severity) -- S
  else if spec = 67 then .ok src.category               -- C
  else if spec = 77 then .ok src.function               -- M
  else if spec = 70 then .ok src.file                   -- F
  else if spec = 71 then .ok (fileNameOf src.file)      -- G
  else if spec = 76 then .ok (natDec src.line)          -- L
  else if spec = 80 then .ok src.formatString           -- P
  else if spec = 84 then .ok src.argumentTags           -- T
  else if spec = 110 then .ok wp.name                   -- n
  else if spec = 116 then .ok (natDec wp.id)            -- t
  else if spec = 100 then tp.localTime ev.clockValue    -- d
  else if spec = 117 then tp.utcTime ev.clockValue      -- u
  else if spec = 114 then .ok (natDec ev.clockValue)    -- r
  else if spec = 109 then printEventMessage (some tp) ev -- m
  else if spec = 37 then .ok [37]                       -- %
  else .ok [37, spec]

/-- `PrettyPrinter::printEvent`: `%` followed by a character is a placeholder, a trailing `%` is
    printed as is. -/
def printEvent (tp : TimePrinter) (fmt : Bytes) (ev : Event) (wp : WriterProp) : Outcome Bytes :=
  let rec go : Bytes → Bytes → Outcome Bytes
    | [], acc => .ok acc
    | c :: rest, acc =>
      if c = 37 then
        match rest with
        | [] => .ok (acc ++ [c])
        | spec :: rest' =>
          match printEventField tp spec ev wp with
          | .error e => .error e
          | .ok b => go rest' (acc ++ b)
      else go rest (acc ++ [c])
  go fmt []

end BinlogVerif.Pretty
