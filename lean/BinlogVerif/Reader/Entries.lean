import BinlogVerif.Base.Bytes
/-
  Model of include/binlog/Entries.hpp: the three metadata entries, their (de)serialisation
  (struct = members in order, string = u32 count + bytes, integers little-endian) and entry
  framing (u32 size prefix + payload, payload = u64 tag + body).
-/
namespace BinlogVerif

def tagEventSource : Nat := 2^64 - 1   -- std::uint64_t(-1)
def tagWriterProp  : Nat := 2^64 - 2   -- std::uint64_t(-2)
def tagClockSync   : Nat := 2^64 - 3   -- std::uint64_t(-3)

/-- `(tag & (1 << 63)) != 0` -/
def isSpecial (tag : Nat) : Bool := tag ≥ 2^63

structure EventSource where
  id : Nat := 0
  severity : Nat := 128          -- Severity::info
  category : Bytes := []
  function : Bytes := []
  file : Bytes := []
  line : Nat := 0
  formatString : Bytes := []
  argumentTags : Bytes := []
deriving Repr, DecidableEq, Inhabited

structure WriterProp where
  id : Nat := 0
  name : Bytes := []
  batchSize : Nat := 0
deriving Repr, DecidableEq, Inhabited

structure ClockSync where
  clockValue : Nat := 0
  clockFrequency : Nat := 0
  nsSinceEpoch : Nat := 0
  tzOffset : Nat := 0            -- raw 32-bit pattern of the int32 field
  tzName : Bytes := []
deriving Repr, DecidableEq, Inhabited

/-! ### strings -/
def encStr (s : Bytes) : Bytes := le 4 s.length ++ s

def decStr (r : Bytes) : Outcome (Bytes × Bytes) := do
  let (n, r) ← readU 4 r
  takeN n r

theorem decStr_encStr (s rest : Bytes) (h : s.length < 2^32) :
    decStr (encStr s ++ rest) = .ok (s, rest) := by
  have h' : s.length < 256 ^ 4 := by simpa using h
  simp only [decStr, encStr, List.append_assoc]
  rw [readU_le_append 4 s.length (s ++ rest) h']
  simp [bind, Except.bind, takeN_append s.length s rest rfl]

/-! ### the three structs -/
def encSource (s : EventSource) : Bytes :=
  le 8 s.id ++ le 2 s.severity ++ encStr s.category ++ encStr s.function ++ encStr s.file
    ++ le 8 s.line ++ encStr s.formatString ++ encStr s.argumentTags

def decSource (r : Bytes) : Outcome (EventSource × Bytes) := do
  let (id, r) ← readU 8 r
  let (severity, r) ← readU 2 r
  let (category, r) ← decStr r
  let (function, r) ← decStr r
  let (file, r) ← decStr r
  let (line, r) ← readU 8 r
  let (formatString, r) ← decStr r
  let (argumentTags, r) ← decStr r
  pure ({ id, severity, category, function, file, line, formatString, argumentTags }, r)

def encWriterProp (w : WriterProp) : Bytes :=
  le 8 w.id ++ encStr w.name ++ le 8 w.batchSize

def decWriterProp (r : Bytes) : Outcome (WriterProp × Bytes) := do
  let (id, r) ← readU 8 r
  let (name, r) ← decStr r
  let (batchSize, r) ← readU 8 r
  pure ({ id, name, batchSize }, r)

def encClockSync (c : ClockSync) : Bytes :=
  le 8 c.clockValue ++ le 8 c.clockFrequency ++ le 8 c.nsSinceEpoch ++ le 4 c.tzOffset
    ++ encStr c.tzName

def decClockSync (r : Bytes) : Outcome (ClockSync × Bytes) := do
  let (clockValue, r) ← readU 8 r
  let (clockFrequency, r) ← readU 8 r
  let (nsSinceEpoch, r) ← readU 8 r
  let (tzOffset, r) ← readU 4 r
  let (tzName, r) ← decStr r
  pure ({ clockValue, clockFrequency, nsSinceEpoch, tzOffset, tzName }, r)

/-! ### framing -/
/-- an entry as it appears in a stream: u32 size prefix + payload -/
def frame (payload : Bytes) : Bytes := le 4 payload.length ++ payload

def sourcePayload (s : EventSource) : Bytes := le 8 tagEventSource ++ encSource s
def writerPropPayload (w : WriterProp) : Bytes := le 8 tagWriterProp ++ encWriterProp w
def clockSyncPayload (c : ClockSync) : Bytes := le 8 tagClockSync ++ encClockSync c
def eventPayload (sourceId clock : Nat) (args : Bytes) : Bytes := le 8 sourceId ++ le 8 clock ++ args

/-- well-formedness of field values (they fit their machine types) -/
def EventSource.Wf (s : EventSource) : Prop :=
  s.id < 2^64 ∧ s.severity < 2^16 ∧ s.category.length < 2^32 ∧ s.function.length < 2^32 ∧
  s.file.length < 2^32 ∧ s.line < 2^64 ∧ s.formatString.length < 2^32 ∧ s.argumentTags.length < 2^32

def WriterProp.Wf (w : WriterProp) : Prop :=
  w.id < 2^64 ∧ w.name.length < 2^32 ∧ w.batchSize < 2^64

def ClockSync.Wf (c : ClockSync) : Prop :=
  c.clockValue < 2^64 ∧ c.clockFrequency < 2^64 ∧ c.nsSinceEpoch < 2^64 ∧ c.tzOffset < 2^32 ∧
  c.tzName.length < 2^32

theorem decSource_encSource (s : EventSource) (rest : Bytes) (h : s.Wf) :
    decSource (encSource s ++ rest) = .ok (s, rest) := by
  obtain ⟨h1, h2, h3, h4, h5, h6, h7, h8⟩ := h
  simp only [decSource, encSource, List.append_assoc]
  rw [readU_le_append 8 s.id _ (by simpa using h1)]
  simp only [bind, Except.bind]
  rw [readU_le_append 2 s.severity _ (by simpa using h2)]
  simp only
  rw [decStr_encStr _ _ h3]; simp only
  rw [decStr_encStr _ _ h4]; simp only
  rw [decStr_encStr _ _ h5]; simp only
  rw [readU_le_append 8 s.line _ (by simpa using h6)]; simp only
  rw [decStr_encStr _ _ h7]; simp only
  rw [decStr_encStr _ _ h8]; simp only
  rfl

theorem decWriterProp_enc (w : WriterProp) (rest : Bytes) (h : w.Wf) :
    decWriterProp (encWriterProp w ++ rest) = .ok (w, rest) := by
  obtain ⟨h1, h2, h3⟩ := h
  simp only [decWriterProp, encWriterProp, List.append_assoc]
  rw [readU_le_append 8 w.id _ (by simpa using h1)]
  simp only [bind, Except.bind]
  rw [decStr_encStr _ _ h2]; simp only
  rw [readU_le_append 8 w.batchSize _ (by simpa using h3)]; simp only
  rfl

theorem decClockSync_enc (c : ClockSync) (rest : Bytes) (h : c.Wf) :
    decClockSync (encClockSync c ++ rest) = .ok (c, rest) := by
  obtain ⟨h1, h2, h3, h4, h5⟩ := h
  simp only [decClockSync, encClockSync, List.append_assoc]
  rw [readU_le_append 8 c.clockValue _ (by simpa using h1)]
  simp only [bind, Except.bind]
  rw [readU_le_append 8 c.clockFrequency _ (by simpa using h2)]; simp only
  rw [readU_le_append 8 c.nsSinceEpoch _ (by simpa using h3)]; simp only
  rw [readU_le_append 4 c.tzOffset _ (by simpa using h4)]; simp only
  rw [decStr_encStr _ _ h5]; simp only
  rfl

end BinlogVerif
