import BinlogVerif.Reader.EventStream
/-
  Model of bin/brecovery.cpp on ARBITRARY input bytes: scan for the first magic byte, match either
  8-byte magic number, read a metadata buffer or a queue (header + buffer), check it, collect the
  buffers, sort them by (session, type), write them out.

  Unchecked accesses are not totalised: a slice outside the copied queue buffer is
  `.error (.trap …)`, so "never reads out of bounds" is the theorem `recover … ≠ trap`.
  `std::istream` failure states are folded into the control flow: a short read makes the current
  candidate fail (`false`), a short read of the 7 magic bytes ends the scan (a failed stream makes
  `seekg` a no-op and the next `ignore` not `good()`).
  `std::sort` on the collected buffers is modelled as a stable sort (libstdc++ uses insertion sort
  for ≤ 16 elements; for more, the order of buffers with equal (session, type) is unspecified).
-/
namespace BinlogVerif.Recovery
open BinlogVerif

def metadataMagic : Bytes := le 8 0xFE214F726E35BDBC
def dataMagic : Bytes := le 8 0xFE213F716D34BCBC
def firstMagicByte : UInt8 := 0xBC

inductive BufType where | metadata | data
deriving DecidableEq, Repr

structure Recovered where
  type : BufType
  session : Nat
  buffer : Bytes
deriving Repr

/-- `checkEntryBuffer`: the buffer is a sequence of whole size-prefixed entries -/
def checkEntryBuffer (b : Bytes) : Bool :=
  match splitEntries b with
  | (_, _, .clean) => true
  | _ => false

/-- a checked slice `[lo, hi)` of the copied queue buffer (`buffer + lo` … in `beginRead`) -/
def slice (buf : Bytes) (lo hi : Nat) : Outcome Bytes :=
  if lo ≤ hi ∧ hi ≤ buf.length then .ok ((buf.drop lo).take (hi - lo)) else .error (.trap "slice out of the copied queue buffer")

/-- `QueueReader::beginRead` on the copied header and buffer: concatenation of the two pieces -/
def beginReadCopy (buf : Bytes) (w e r : Nat) : Outcome Bytes :=
  if r ≤ w then slice buf r w
  else if r < e then do
    let a ← slice buf r e
    let b ← slice buf 0 w
    pure (a ++ b)
  else slice buf 0 w

/-- `readMetadata` at the bytes following the magic: `some (buffer, consumed)` on success -/
def readMetadata (r : Bytes) : Option (Recovered × Nat) :=
  if r.length < 16 then none else
  let session := unle (r.take 8)
  let size := unle ((r.drop 8).take 8)
  let rest := r.drop 16
  if size > rest.length then none else
  let md := rest.take size
  if checkEntryBuffer md then some (⟨.metadata, session, md⟩, 16 + size) else none

/-- `readData` at the bytes following the magic.  Layout of `detail::Queue` on x86-64:
    writeIndex, dataEnd, capacity, buffer pointer, readIndex — 8 bytes each. -/
def readData (r : Bytes) : Outcome (Option (Recovered × Nat)) :=
  if r.length < 48 then .ok none else
  let session := unle (r.take 8)
  let q := r.drop 8
  let w := unle (q.take 8)
  let e := unle ((q.drop 8).take 8)
  let cap := unle ((q.drop 16).take 8)
  let rd := unle ((q.drop 32).take 8)
  if w > cap ∨ e > cap ∨ rd > cap then .ok none else
  let rest := r.drop 48
  if cap > rest.length then .ok none else
  let buf := rest.take cap
  match beginReadCopy buf w e rd with
  | .error err => .error err
  | .ok data => if checkEntryBuffer data then .ok (some (⟨.data, session, data⟩, 48 + cap)) else .ok none

/-- the scan loop; `fuel` = number of remaining loop iterations (each consumes ≥ 1 byte) -/
def scan : Nat → Bytes → Outcome (List Recovered)
  | 0, _ => .ok []
  | fuel + 1, r =>
    -- input.ignore(max, firstMagicByte).good()
    let skipped := r.dropWhile (· != firstMagicByte)
    match skipped with
    | [] => .ok []
    | _ :: after =>
      if after.length < 7 then .ok [] else
      let magic := firstMagicByte :: after.take 7
      let body := after.drop 7
      if magic = metadataMagic then
        match readMetadata body with
        | some (b, n) => (scan fuel (body.drop n)).map (b :: ·)
        | none => scan fuel body
      else if magic = dataMagic then
        match readData body with
        | .error e => .error e
        | .ok (some (b, n)) => (scan fuel (body.drop n)).map (b :: ·)
        | .ok none => scan fuel body
      else scan fuel after

def typeRank : BufType → Nat | .metadata => 0 | .data => 1

/-- the comparator of `std::sort`: session, then type -/
def bufLe (a b : Recovered) : Bool :=
  if a.session = b.session then typeRank a.type ≤ typeRank b.type else a.session < b.session

/-- `brecovery corefile -`: the bytes written -/
def recover (image : Bytes) : Outcome Bytes :=
  match scan (image.length + 1) image with
  | .error e => .error e
  | .ok bufs => .ok ((bufs.mergeSort bufLe).map (·.buffer)).flatten

end BinlogVerif.Recovery
