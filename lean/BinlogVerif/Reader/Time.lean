import BinlogVerif.Reader.Entries
/-
  C17 — model of the timestamp path of `bread`:

    include/binlog/Time.cpp          clockToNsSinceEpoch, nsSinceEpochToBrokenDownTimeUTC
    include/binlog/PrettyPrinter.cpp printProducerLocalTime, printUTCTime, printTime, printTimeField,
                                     printTwoDigits, printNineDigits, printTimeZoneOffset
    include/binlog/detail/OstreamBuffer.cpp  writeSigned (`out << int`)

  Everything here is executable, total and reducible by the kernel (`decide`/`rfl` work on concrete
  inputs): structural recursion only, no well-founded recursion, no `partial`.

  ASSUMPTIONS (stated, not verified)
  * A1  Signed 64-bit overflow (undefined behaviour in C++) is modelled as two's complement wrap
        (`wrap64`), which is what gcc/clang emit here without `-ftrapv`.  Every signed step of the
        C++ is followed by `wrap64`; every unsigned step by `% 2^64` / `% 2^32`.
  * A2  libstdc++ on x86-64 Linux: `std::chrono::seconds`/`nanoseconds` have rep `int64_t`,
        `system_clock::duration` is `nanoseconds`, `to_time_t` is a truncating `duration_cast<seconds>`,
        `time_t` is `int64_t`, `int` is 32 bit.
  * A3  glibc `gmtime_r(tt)` = proleptic Gregorian calendar, no leap seconds:
        day number `⌊tt / 86400⌋` converted by `civilFromDays`, second of day `tt mod 86400` split
        into h/m/s.  (`civilFromDays` is proved inverse to the independent `daysFromCivil`.)
        For every `tt` the code can produce (|tt| < 9.3e9) glibc does not fail with EOVERFLOW.
  * A4  `snprintf("%.9d", i)` / `snprintf("%ld", v)`: decimal digits of the magnitude, most significant
        first, no leading zeros (`decNat`), zero padded on the left to nine digits for `%.9d`,
        preceded by `-` for negative values.
  * A5  `assert` is enabled (debug build): a failed `assert` is `.error (.trap "assert")`.
  * A6  `clockToNsSinceEpoch` divides by `clockFrequency`; both callers guard with
        `int64(clockFrequency) > 0`, so the divisor is never 0 (Lean's `x / 0 = 0` is never used by
        `printLocal`/`printUTC`).
-/
namespace BinlogVerif.Time
open BinlogVerif

/-! ### machine arithmetic -/

/-- two's complement wrap of an exact integer into `[-2^63, 2^63)` (conversion to `int64_t`) -/
def wrap64 (x : Int) : Int := (x + 9223372036854775808) % 18446744073709551616 - 9223372036854775808

/-- two's complement wrap of an exact integer into `[-2^31, 2^31)` (conversion to `int`) -/
def wrap32 (x : Int) : Int := (x + 2147483648) % 4294967296 - 2147483648

/-- raw 32-bit pattern → signed `int32_t` -/
def toI32 (raw : Nat) : Int := wrap32 (raw : Int)

/-- `std::nano::den` -/
def nsPerSec : Nat := 1000000000

/-! ### Time.cpp -/

/-- `ticksToNanoseconds(frequency, ticks).count()` (public helper of Time.hpp; no longer on the
    printing path).  `sf = int64(frequency)`; truncating `int64` division and remainder;
    `q * den` and `r * den` are `int64` products (A1).  Precondition of the C++: `sf ≠ 0`. -/
def ticksToNs (frequency : Nat) (ticks : Int) : Int :=
  let sf := wrap64 (frequency : Int)
  let q := wrap64 (Int.tdiv ticks sf)
  let r := Int.tmod ticks sf
  wrap64 (wrap64 (q * 1000000000) + Int.tdiv (wrap64 (r * 1000000000)) sf)

/-- `clockToNsSinceEpoch(clockSync, clockValue).count()`.
    `ticks`, `f`, `den` are `uint64_t`: every product/sum is reduced `% 2^64`.
    `std::int64_t(…)`, the negation and the `nanos + nanos` addition are signed: `wrap64` (A1). -/
def clockToNs (cs : ClockSync) (clock : Nat) : Int :=
  let after : Bool := decide (clock ≥ cs.clockValue)
  let ticks : Nat :=
    if after then (clock - cs.clockValue) % 18446744073709551616
    else (cs.clockValue - clock) % 18446744073709551616
  let f : Nat := cs.clockFrequency
  let den : Nat := nsPerSec
  -- (ticks / f) * den + (ticks % f) * den / f      (uint64_t)
  let a : Nat := ((ticks / f) * den) % 18446744073709551616
  let b : Nat := (((ticks % f) * den) % 18446744073709551616) / f
  let u : Nat := (a + b) % 18446744073709551616
  let ns : Int := wrap64 (u : Int)                    -- std::int64_t(...)
  let diff : Int := if after then ns else wrap64 (-ns)
  -- nanos{clockSync.nsSinceEpoch} + diff             (uint64 → int64 rep, then int64 addition)
  wrap64 (wrap64 (cs.nsSinceEpoch : Int) + diff)

/-! ### the civil calendar (contract assumed for `gmtime_r`, A3) -/

/-- Day number (days since 1970-01-01) → (year, month 1..12, day 1..31), proleptic Gregorian.
    Shift the origin to 0000-03-01, split into 400-year eras (146097 days), centuries (36524 days,
    the fourth one day longer), 4-year cycles (1461 days, the 25th one day shorter), years
    (365 days, the fourth one day longer); month and day from the day of the March-based year
    (Hinnant's 153-day formula). -/
def civilFromDays (z : Int) : Int × Nat × Nat :=
  let z := z + 719468
  let era := z / 146097                  -- floor
  let doe := z % 146097                  -- [0, 146096]
  let c := min (doe / 36524) 3
  let doc := doe - c * 36524
  let q := min (doc / 1461) 24
  let d4 := doc - q * 1461
  let yy := min (d4 / 365) 3
  let doy := d4 - yy * 365               -- [0, 365], day of the year starting on March 1st
  let yoe := 100 * c + 4 * q + yy        -- [0, 399]
  let mp := (5 * doy + 2) / 153          -- [0, 11], March = 0
  let d := doy - (153 * mp + 2) / 5 + 1
  let m := if mp < 10 then mp + 3 else mp - 9
  let y := era * 400 + yoe + (if m ≤ 2 then 1 else 0)
  (y, m.toNat, d.toNat)

/-! #### independent specification, written from the leap-year rule -/

/-- Gregorian leap-year rule -/
def isLeap (y : Int) : Bool := decide (y % 4 = 0 ∧ (y % 100 ≠ 0 ∨ y % 400 = 0))

/-- number of days in month `m` of year `y` -/
def daysInMonth (y : Int) (m : Nat) : Nat :=
  match m with
  | 1 => 31 | 2 => if isLeap y then 29 else 28 | 3 => 31 | 4 => 30 | 5 => 31 | 6 => 30
  | 7 => 31 | 8 => 31 | 9 => 30 | 10 => 31 | 11 => 30 | 12 => 31 | _ => 0

/-- days of year `y` before the first of month `m` (cumulative month lengths) -/
def daysBeforeMonth (y : Int) : Nat → Nat
  | 0 => 0
  | 1 => 0
  | m + 1 => daysBeforeMonth y m + daysInMonth y m

/-- `(y, m, d)` is a date of the proleptic Gregorian calendar -/
def ValidDate (y : Int) (m d : Nat) : Prop := 1 ≤ m ∧ m ≤ 12 ∧ 1 ≤ d ∧ d ≤ daysInMonth y m

/-- days from 0001-01-01 to `y`-01-01: the `p = y − 1` whole years before year `y` have
    `365·p` days plus one leap day for every multiple of 4, minus one for every multiple of 100,
    plus one for every multiple of 400 among them (floor division, so also valid for `y ≤ 0`). -/
def daysBeforeYear (y : Int) : Int :=
  let p := y - 1
  365 * p + p / 4 - p / 100 + p / 400

/-- days from 1970-01-01 to `y-m-d`: whole years, whole months of the year, days of the month,
    minus the same count for 1970-01-01 (`daysBeforeYear 1970 = 719162`). -/
def daysFromCivil (y : Int) (m d : Nat) : Int :=
  daysBeforeYear y + (daysBeforeMonth y m : Int) + ((d : Int) - 1) - 719162

/-! ### nsSinceEpochToBrokenDownTimeUTC -/

/-- `BrokenDownTime`: `year` is the full year (`tm_year + 1900`), `mon` is `tm_mon + 1`. -/
structure BDT where
  year : Int
  mon : Nat
  mday : Nat
  hour : Nat
  min : Nat
  sec : Nat
  nsec : Int
deriving Repr, DecidableEq, Inhabited

/-- `gmtime_r` (A3), `nsec` left 0 (`BrokenDownTime bdt{}`) -/
def gmtime (tt : Int) : BDT :=
  let days := tt / 86400          -- floor
  let sod := tt % 86400           -- [0, 86399]
  let ymd := civilFromDays days
  { year := ymd.1, mon := ymd.2.1, mday := ymd.2.2,
    hour := (sod / 3600).toNat, min := (sod % 3600 / 60).toNat, sec := (sod % 60).toNat, nsec := 0 }

/-- `nsSinceEpochToBrokenDownTimeUTC(nanoseconds{ns}, dst)`, `ns` an `int64_t` value.
    All `int64_t` steps wrap (A1); in particular the two conversions `seconds → nanoseconds`
    after the decrement (`duration_cast<clock::duration>(seconds)` and `sinceEpoch - seconds`)
    overflow for `ns < -9223372036000000000` (the last 0.85 s above `INT64_MIN`). -/
def brokenDown (ns : Int) : BDT :=
  -- auto seconds = duration_cast<seconds>(sinceEpoch);            truncating int64 division
  let s0 := Int.tdiv ns 1000000000
  -- if (nanoseconds{seconds} > sinceEpoch) seconds -= 1;
  let s := if wrap64 (s0 * 1000000000) > ns then wrap64 (s0 - 1) else s0
  -- clock::time_point tp{duration_cast<clock::duration>(seconds)};   clock::duration = nanoseconds (A2)
  let tp := wrap64 (s * 1000000000)
  -- time_t tt = clock::to_time_t(tp);                               truncating duration_cast<seconds>
  let tt := Int.tdiv tp 1000000000
  -- const nanoseconds remainder{sinceEpoch - seconds};  dst.tm_nsec = int(remainder.count());
  let rem := wrap64 (ns - wrap64 (s * 1000000000))
  { gmtime tt with nsec := wrap32 rem }

/-! ### decimal output (A4) -/

/-- `char(x)` for an `int` x -/
def chr (x : Int) : UInt8 := UInt8.ofNat (x % 256).toNat

/-- decimal digits, most significant first; `fuel` bounds the number of digits -/
def natDigits : (fuel : Nat) → Nat → Bytes
  | 0, _ => []
  | fuel + 1, n => if n < 10 then [UInt8.ofNat (48 + n)]
                   else natDigits fuel (n / 10) ++ [UInt8.ofNat (48 + n % 10)]

/-- decimal representation of a natural number without leading zeros (`n + 1` digits suffice) -/
def decNat (n : Nat) : Bytes := natDigits (n + 1) n

/-- `snprintf("%ld", v)` — what `OstreamBuffer::operator<<(int)` writes -/
def decInt (v : Int) : Bytes := if v < 0 then 45 :: decNat v.natAbs else decNat v.natAbs

/-- `snprintf(buf, 16, "%.9d", i)`: at least nine digits, zero padded; at most 15 chars stored -/
def fmt9d (i : Int) : Bytes :=
  let ds := decNat i.natAbs
  let padded := List.replicate (9 - ds.length) (48 : UInt8) ++ ds
  (if i < 0 then 45 :: padded else padded).take 15

/-! ### PrettyPrinter.cpp -/

/-- `printTwoDigits(out, i)` -/
def printTwoDigits (i : Int) : Outcome Bytes :=
  if 0 ≤ i ∧ i < 100 then                       -- assert(0 <= i && i < 100);
    let b := Int.tmod i 10                      -- const int b = i % 10;
    let a := Int.tdiv (i - b) 10                -- const int a = (i - b) / 10;
    .ok [chr (48 + a), chr (48 + b)]            -- {char('0' + a), char('0' + b)}
  else .error (.trap "assert")

/-- `printNineDigits(out, i)`: the first nine chars of `"%.9d"` -/
def printNineDigits (i : Int) : Outcome Bytes := .ok ((fmt9d i).take 9)

/-- `printTimeZoneOffset(out, seconds)`, `seconds` an `int` value; `unsigned` arithmetic `% 2^32` -/
def printTimeZoneOffset (seconds : Int) : Outcome Bytes :=
  let sign : UInt8 := if seconds ≥ 0 then 43 else 45
  -- (seconds >= 0) ? unsigned(seconds) : 0U - unsigned(seconds)
  let useconds : Nat := (seconds % 4294967296).toNat
  let psecs : Nat := if seconds ≥ 0 then useconds else (4294967296 - useconds) % 4294967296
  let hours : Nat := psecs / 3600
  -- (psecs / 60) - 60 * hours      (unsigned: product and difference mod 2^32)
  let mins : Nat := (psecs / 60 + 4294967296 - (60 * hours) % 4294967296) % 4294967296
  do
    let h ← printTwoDigits (if hours < 100 then (hours : Int) else 0)
    let m ← printTwoDigits (if mins < 100 then (mins : Int) else 0)
    pure (sign :: (h ++ m))

/-- `out << tzname` for a `const char*`: up to the first NUL -/
def cstr (s : Bytes) : Bytes := s.takeWhile (fun b => b != 0)

/-- `PrettyPrinter::printTimeField`.  `tm_year` is `bdt.year - 1900`, `tm_mon` is `bdt.mon - 1`. -/
def printTimeField (spec : Char) (bdt : BDT) (tz : Int) (tzname : Bytes) : Outcome Bytes :=
  let tm_year : Int := wrap32 (bdt.year - 1900)
  match spec with
  | 'Y' => .ok (decInt (wrap32 (tm_year + 1900)))                                -- out << bdt.tm_year + 1900
  | 'y' => printTwoDigits (Int.tmod (Int.tmod tm_year 100 + 100) 100)            -- ((tm_year % 100) + 100) % 100
  | 'm' => printTwoDigits (bdt.mon : Int)                                        -- tm_mon + 1
  | 'd' => printTwoDigits (bdt.mday : Int)
  | 'H' => printTwoDigits (bdt.hour : Int)
  | 'M' => printTwoDigits (bdt.min : Int)
  | 'S' => printTwoDigits (bdt.sec : Int)
  | 'z' => printTimeZoneOffset tz
  | 'Z' => .ok (cstr tzname)
  | 'N' => printNineDigits bdt.nsec
  | _ => .ok [37, UInt8.ofNat spec.toNat]                                        -- out << '%' << spec

/-- `PrettyPrinter::printTime` with `_timeFormat = fmt`.
    `if (c == '%' && ++i != size)`: a `%` followed by a char consumes that char as a spec;
    a `%` that is the last char fails the second conjunct (after the increment) and is emitted
    by the `else` branch, after which the loop ends. -/
def printTime (fmt : Bytes) (bdt : BDT) (tz : Int) (tzname : Bytes) : Outcome Bytes :=
  match fmt with
  | [] => .ok []
  | [c] => .ok [c]
  | c :: spec :: rest =>
    if c = 37 then do
      let a ← printTimeField (Char.ofNat spec.toNat) bdt tz tzname
      let r ← printTime rest bdt tz tzname
      pure (a ++ r)
    else do
      let r ← printTime (spec :: rest) bdt tz tzname
      pure (c :: r)

/-- the text `no_clock_sync?` -/
def noClockSync : Bytes := [110, 111, 95, 99, 108, 111, 99, 107, 95, 115, 121, 110, 99, 63]

/-- the text `UTC` -/
def utcName : Bytes := [85, 84, 67]

/-- `PrettyPrinter::printProducerLocalTime` with `_timeFormat = dateFmt`, `*_clockSync = cs` -/
def printLocal (dateFmt : Bytes) (cs : ClockSync) (clock : Nat) : Outcome Bytes :=
  if wrap64 (cs.clockFrequency : Int) > 0 then            -- std::int64_t(clockFrequency) > 0
    let sinceEpoch := clockToNs cs clock
    let tz := toI32 cs.tzOffset
    -- sinceEpoch + std::chrono::seconds{tzOffset}:  int64(tz) * 10^9 (no overflow for an int32), int64 addition
    let sinceEpochTz := wrap64 (sinceEpoch + wrap64 (tz * 1000000000))
    printTime dateFmt (brokenDown sinceEpochTz) tz cs.tzName
  else .ok noClockSync

/-- `PrettyPrinter::printUTCTime` -/
def printUTC (dateFmt : Bytes) (cs : ClockSync) (clock : Nat) : Outcome Bytes :=
  if wrap64 (cs.clockFrequency : Int) > 0 then
    printTime dateFmt (brokenDown (clockToNs cs clock)) 0 utcName
  else .ok noClockSync

/-! ### specification vocabulary (used only in theorem statements) -/

/-- the bytes of an ASCII string literal (for readable examples) -/
def ascii (s : String) : Bytes := s.toList.map (fun c => UInt8.ofNat c.toNat)

/-- two zero-padded decimal digits of `n` -/
def dig2 (n : Nat) : Bytes := [UInt8.ofNat (48 + n / 10 % 10), UInt8.ofNat (48 + n % 10)]

/-- nine zero-padded decimal digits of `n` -/
def dig9 (n : Nat) : Bytes :=
  [UInt8.ofNat (48 + n / 100000000 % 10), UInt8.ofNat (48 + n / 10000000 % 10),
   UInt8.ofNat (48 + n / 1000000 % 10), UInt8.ofNat (48 + n / 100000 % 10),
   UInt8.ofNat (48 + n / 10000 % 10), UInt8.ofNat (48 + n / 1000 % 10),
   UInt8.ofNat (48 + n / 100 % 10), UInt8.ofNat (48 + n / 10 % 10), UInt8.ofNat (48 + n % 10)]

/-- four decimal digits of `n` -/
def dig4 (n : Nat) : Bytes :=
  [UInt8.ofNat (48 + n / 1000 % 10), UInt8.ofNat (48 + n / 100 % 10),
   UInt8.ofNat (48 + n / 10 % 10), UInt8.ofNat (48 + n % 10)]

end BinlogVerif.Time
