import BinlogVerif.Reader.Pretty
import BinlogVerif.Reader.Time
import BinlogVerif.Reader.Filter
/-
  Model of `bread` (bin/printers.cpp + PrettyPrinter) on ARBITRARY bytes and format strings:
  entry stream → event stream → pretty printer, with the time model plugged in.
-/
namespace BinlogVerif.Bread
open BinlogVerif

/-- `useLocaltime(eventFormat)`: the first `%d`/`%u` placeholder decides; default local -/
def useLocaltime (fmt : Bytes) : Bool :=
  let rec go : Bytes → Bool → Bool
    | [], _ => true
    | c :: rest, placeholder =>
      if placeholder then
        if c = 100 then true else if c = 117 then false else go rest false
      else go rest (c = 37)
  go fmt false

/-- the time printers of a `PrettyPrinter(eventFormat, dateFmt)` while printing with clock sync `cs` -/
def timePrinter (fmt dateFmt : Bytes) (cs : ClockSync) : Pretty.TimePrinter where
  timePoint ns :=
    if useLocaltime fmt then
      let tz := Time.toI32 cs.tzOffset
      let nsTz := Time.wrap64 (ns + Time.wrap64 (tz * 1000000000))
      Time.printTime dateFmt (Time.brokenDown nsTz) tz cs.tzName
    else Time.printTime dateFmt (Time.brokenDown ns) 0 Time.utcName
  localTime clock := Time.printLocal dateFmt cs clock
  utcTime clock := Time.printUTC dateFmt cs clock

/-- the text of one event -/
def renderEvent (fmt dateFmt : Bytes) (ev : Event) (wp : WriterProp) (cs : ClockSync) : Outcome Bytes :=
  Pretty.printEvent (timePrinter fmt dateFmt cs) fmt ev wp

/-- the items a read of `file` produces, with the stream error (if any) appended -/
def itemsOf (file : Bytes) : List Item :=
  let (ps, _, tail) := splitEntries file
  let items := readAll {} ps
  if (runState {} ps).2 then items else
  match tail with
  | .clean => items
  | .truncSize => items ++ [.error .truncSize]
  | .truncPayload => items ++ [.error .truncPayload]

/-- print events until the first exception (from the streams or from the printer):
    complete event texts with their clocks, and the exception -/
def printUntilError (fmt dateFmt : Bytes) : List Item → List (Line Bytes) × Option Err
  | [] => ([], none)
  | .error e :: _ => ([], some e)
  | .event ev wp cs :: rest =>
    match renderEvent fmt dateFmt ev wp cs with
    | .error e => ([], some e)
    | .ok text =>
      let (ls, err) := printUntilError fmt dateFmt rest
      ((ev.clockValue, text) :: ls, err)

/-- `bread [-s] -f fmt -d dateFmt file`: the complete event texts printed, and the error that
    ended the run (exit status 3) if any -/
def run (sorted : Bool) (fmt dateFmt : Bytes) (file : Bytes) : Bytes × Option Err :=
  let (ls, err) := printUntilError fmt dateFmt (itemsOf file)
  let ls := if sorted then ls.mergeSort (fun a b => a.1 ≤ b.1) else ls
  ((ls.map (·.2)).flatten, err)

/-! ### TextOutputStream (include/binlog/TextOutputStream.cpp)

  `write(data, size)`: a `RangeEntryStream` over exactly these bytes, the stream object's `EventStream` (reader state)
  carried over from earlier calls; every event is printed to the output as soon as it is read.  The first exception — an
  invalid entry, a printer error, or the `Range overflow` of the incomplete entry at the end of the bytes — leaves `write`
  with what was printed so far on the output. -/

/-- the whole entries of the chunk, in order: (state, output so far, exception, `nextEvent` returned null) -/
def textOutEntries (fmt dateFmt : Bytes) : ReaderState → List Bytes → Bytes → ReaderState × Bytes × Option Err × Bool
  | st, [], acc => (st, acc, none, false)
  | st, p :: ps, acc =>
    match stepEntry st p with
    | none => (st, acc, none, true)
    | some (items, st') =>
      match items with
      | [] => textOutEntries fmt dateFmt st' ps acc
      | .error e :: _ => (st', acc, some e, false)
      | .event ev wp cs :: _ =>
        match renderEvent fmt dateFmt ev wp cs with
        | .error e => (st', acc, some e, false)
        | .ok t => textOutEntries fmt dateFmt st' ps (acc ++ t)

/-- one `write`: new reader state, the output after the call, the exception the call ends with (if any) -/
def textOutWrite (fmt dateFmt : Bytes) (st : ReaderState) (out : Bytes) (chunk : Bytes) : ReaderState × Bytes × Option Err :=
  let (ps, _, tail) := splitEntries chunk
  let (st', out', err, stopped) := textOutEntries fmt dateFmt st ps out
  let e : Option Err := match err with
    | some e => some e
    | none =>
      if stopped then none else
      match tail with
      | .clean => none
      | .truncSize => some .overflow      -- RangeEntryStream: an incomplete size field or payload is a `Range overflow`
      | .truncPayload => some .overflow
  (st', out', e)

end BinlogVerif.Bread
