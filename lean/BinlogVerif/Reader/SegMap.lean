import BinlogVerif.Base.Bytes
/-
  Model of include/binlog/detail/SegmentedMap.hpp.

  The code keeps two parallel vectors `_offsets` / `_segments`; the model keeps the list of
  pairs `(offset, segment)` (an isomorphic representation; `toVectors` recovers the vectors and
  the correspondence harness compares against them).  `segmentIndex` is the code's linear scan:
  advance while the *next* offset is `≤ key`.  `key - offset` is the 64-bit machine subtraction.
-/
namespace BinlogVerif

abbrev SegMap (V : Type) := List (Nat × List V)

namespace SegMap

def empty {V} : SegMap V := [(0, [])]

/-- `key - offset` on `std::uint64_t` -/
def sub64 (a b : Nat) : Nat := (a + 2^64 - b % 2^64) % 2^64

theorem sub64_of_le {a b : Nat} (hb : b ≤ a) (ha : a < 2^64) : sub64 a b = a - b := by
  unfold sub64
  have : b % 2^64 = b := Nat.mod_eq_of_lt (by omega)
  rw [this]
  omega

def find {V} : SegMap V → Nat → Option V
  | [], _ => none                                   -- unreachable: `_offsets` starts as {0}
  | [(o, seg)], k => seg[sub64 k o]?
  | (o, seg) :: (o', seg') :: rest, k =>
    if o' ≤ k then find ((o', seg') :: rest) k else seg[sub64 k o]?

def emplace {V} : SegMap V → Nat → V → SegMap V
  | [], _, _ => []
  | [(o, seg)], k, v =>
    let vi := sub64 k o
    if seg.length = vi then [(o, seg ++ [v])]
    else if seg.length > vi then [(o, seg.set vi v)]
    else [(o, seg), (k, [v])]
  | (o, seg) :: (o', seg') :: rest, k, v =>
    if o' ≤ k then (o, seg) :: emplace ((o', seg') :: rest) k v
    else
      let vi := sub64 k o
      if seg.length = vi then (o, seg ++ [v]) :: (o', seg') :: rest
      else if seg.length > vi then (o, seg.set vi v) :: (o', seg') :: rest
      else (o, seg) :: (k, [v]) :: (o', seg') :: rest

def size {V} (m : SegMap V) : Nat := (m.map fun p => p.2.length).sum

/-- Segments are sorted, disjoint and non-wrapping: each segment `[o, o+len)` ends at or
    before the next offset, and the last one ends at or before 2^64. -/
def Sorted {V} : SegMap V → Prop
  | [] => False
  | [(o, seg)] => o + seg.length ≤ 2^64
  | (o, seg) :: (o', seg') :: rest => o + seg.length ≤ o' ∧ Sorted ((o', seg') :: rest)

/-- The invariant: first offset is 0 and segments are sorted/disjoint. -/
def Inv {V} (m : SegMap V) : Prop := (∃ seg rest, m = (0, seg) :: rest) ∧ Sorted m

theorem inv_empty {V} : Inv (empty : SegMap V) := by
  refine ⟨⟨[], [], rfl⟩, ?_⟩
  simp [empty, Sorted]

/-- head offset of a non-empty map -/
def headOff {V} : SegMap V → Nat
  | [] => 0
  | (o, _) :: _ => o

theorem emplace_headOff {V} (m : SegMap V) (k : Nat) (v : V) (hne : m ≠ []) :
    headOff (emplace m k v) = headOff m := by
  match m with
  | [] => exact absurd rfl hne
  | [(o, seg)] =>
    simp only [emplace]
    repeat' split
    all_goals rfl
  | (o, seg) :: (o', seg') :: rest =>
    simp only [emplace]
    repeat' split
    all_goals rfl

theorem emplace_ne_nil {V} (m : SegMap V) (k : Nat) (v : V) (hne : m ≠ []) : emplace m k v ≠ [] := by
  match m with
  | [] => exact absurd rfl hne
  | [(o, seg)] =>
    simp only [emplace]
    repeat' split
    all_goals simp
  | (o, seg) :: (o', seg') :: rest =>
    simp only [emplace]
    repeat' split
    all_goals simp

/-- `emplace` preserves sortedness, for keys at or after the head offset. -/
theorem sorted_emplace {V} (m : SegMap V) (k : Nat) (v : V)
    (hs : Sorted m) (hk : headOff m ≤ k) (hk64 : k < 2^64) : Sorted (emplace m k v) := by
  induction m with
  | nil => exact hs
  | cons p rest ih =>
    obtain ⟨o, seg⟩ := p
    cases rest with
    | nil =>
      simp only [headOff] at hk
      simp only [Sorted] at hs
      have hsub := sub64_of_le hk hk64
      simp only [emplace, hsub]
      split
      · simp only [Sorted, List.length_append, List.length_singleton]; omega
      · split
        · simp only [Sorted, List.length_set]; exact hs
        · simp only [Sorted, List.length_singleton]; omega
    | cons q rest' =>
      obtain ⟨o', seg'⟩ := q
      simp only [headOff] at hk
      simp only [Sorted] at hs
      simp only [emplace]
      split
      · rename_i hle
        have ih' := ih hs.2 (by simpa [headOff] using hle)
        have hne : emplace ((o', seg') :: rest') k v ≠ [] := emplace_ne_nil _ _ _ (by simp)
        have hho := emplace_headOff ((o', seg') :: rest') k v (by simp)
        match hE : emplace ((o', seg') :: rest') k v with
        | [] => exact absurd hE hne
        | (o2, seg2) :: rest2 =>
          rw [hE] at ih' hho
          simp only [headOff] at hho
          subst hho
          exact ⟨hs.1, ih'⟩
      · rename_i hlt
        have hsub := sub64_of_le hk hk64
        simp only [hsub]
        split
        · simp only [Sorted, List.length_append, List.length_singleton]
          exact ⟨by omega, hs.2⟩
        · split
          · simp only [Sorted, List.length_set]; exact hs
          · simp only [Sorted, List.length_singleton]
            exact ⟨by omega, by omega, hs.2⟩

theorem inv_emplace {V} (m : SegMap V) (k : Nat) (v : V) (h : Inv m) (hk64 : k < 2^64) :
    Inv (emplace m k v) := by
  obtain ⟨⟨seg, rest, rfl⟩, hs⟩ := h
  refine ⟨?_, sorted_emplace _ k v hs (by simp [headOff]) hk64⟩
  have hne : emplace ((0, seg) :: rest) k v ≠ [] := emplace_ne_nil _ _ _ (by simp)
  have hho := emplace_headOff ((0, seg) :: rest) k v (by simp)
  match hE : emplace ((0, seg) :: rest) k v with
  | [] => exact absurd hE hne
  | (o2, seg2) :: rest2 =>
    rw [hE] at hho
    simp only [headOff] at hho
    subst hho
    exact ⟨seg2, rest2, rfl⟩

/-- In a sorted map, a key below the head offset + … : helper — looking up a key that is
    smaller than the offset of the next segment only inspects the head segment. -/
theorem find_emplace_aux {V} (m : SegMap V) (k k' : Nat) (v : V)
    (hs : Sorted m) (hk : headOff m ≤ k) (hk' : headOff m ≤ k') (hk64 : k < 2^64) (hk'64 : k' < 2^64) :
    find (emplace m k v) k' = if k' = k then some v else find m k' := by
  induction m with
  | nil => exact absurd hs (by simp [Sorted])
  | cons p rest ih =>
    obtain ⟨o, seg⟩ := p
    cases rest with
    | nil =>
      simp only [headOff] at hk hk'
      simp only [Sorted] at hs
      have hsub := sub64_of_le hk hk64
      have hsub' := sub64_of_le hk' hk'64
      simp only [emplace, hsub]
      split
      · rename_i hlen
        simp only [find, hsub']
        by_cases hkk : k' = k
        · subst hkk; simp [hlen]
        · simp only [hkk, if_false]
          by_cases hlt : k' - o < seg.length
          · simp [List.getElem?_append_left hlt]
          · have : seg.length < k' - o := by omega
            rw [List.getElem?_eq_none (by simp; omega), List.getElem?_eq_none (by omega)]
      · split
        · rename_i hne hgt
          simp only [find, hsub']
          by_cases hkk : k' = k
          · subst hkk; simp [hgt]
          · simp only [hkk, if_false]
            rw [List.getElem?_set_ne (by omega)]
        · rename_i hne hngt
          simp only [find, hsub']
          by_cases hkk : k' = k
          · subst hkk; simp [sub64_of_le (Nat.le_refl k') hk'64]
          · simp only [hkk, if_false]
            by_cases hle : k ≤ k'
            · simp only [hle, if_true]
              have : k' - o ≥ seg.length := by omega
              rw [sub64_of_le hle hk'64]
              rw [List.getElem?_eq_none (by simp; omega), List.getElem?_eq_none (by omega)]
            · simp [hle]
    | cons q rest' =>
      obtain ⟨o', seg'⟩ := q
      simp only [headOff] at hk hk'
      simp only [Sorted] at hs
      have hsub := sub64_of_le hk hk64
      have hsub' := sub64_of_le hk' hk'64
      simp only [emplace]
      split
      · rename_i hle
        -- key goes to a later segment
        have hne : emplace ((o', seg') :: rest') k v ≠ [] := emplace_ne_nil _ _ _ (by simp)
        have hho := emplace_headOff ((o', seg') :: rest') k v (by simp)
        match hE : emplace ((o', seg') :: rest') k v with
        | [] => exact absurd hE hne
        | (o2, seg2) :: rest2 =>
          rw [hE] at hho
          simp only [headOff] at hho
          subst hho
          simp only [find]
          by_cases hle' : o2 ≤ k'
          · simp only [hle', if_true]
            rw [← hE]
            exact ih hs.2 (by simpa [headOff] using hle) (by simpa [headOff] using hle')
          · simp only [hle', if_false]
            have : k' ≠ k := by omega
            simp [this]
      · rename_i hlt
        simp only [hsub]
        split
        · rename_i hlen
          simp only [find]
          by_cases hle' : o' ≤ k'
          · have : k' ≠ k := by omega
            simp [hle', this]
          · simp only [hle', if_false, hsub']
            by_cases hkk : k' = k
            · subst hkk; simp [hlen]
            · simp only [hkk, if_false]
              by_cases hlt' : k' - o < seg.length
              · simp [List.getElem?_append_left hlt']
              · rw [List.getElem?_eq_none (by simp; omega), List.getElem?_eq_none (by omega)]
        · split
          · rename_i hne hgt
            simp only [find]
            by_cases hle' : o' ≤ k'
            · have : k' ≠ k := by omega
              simp [hle', this]
            · simp only [hle', if_false, hsub']
              by_cases hkk : k' = k
              · subst hkk; simp [hgt]
              · simp only [hkk, if_false]
                rw [List.getElem?_set_ne (by omega)]
          · rename_i hne hngt
            simp only [find]
            by_cases hkk : k' = k
            · subst hkk
              have : ¬ o' ≤ k' := hlt
              simp [this, sub64_of_le (Nat.le_refl k') hk'64]
            · simp only [hkk, if_false]
              by_cases hle' : o' ≤ k'
              · have : k ≤ k' := by omega
                simp [hle', this]
              · simp only [hle', if_false]
                by_cases hle2 : k ≤ k'
                · simp only [hle2, if_true]
                  rw [sub64_of_le hle2 hk'64, hsub']
                  rw [List.getElem?_eq_none (by simp; omega), List.getElem?_eq_none (by omega)]
                · simp [hle2, hsub']

/-- **SegmentedMap is a map**, for all 2^64 keys. -/
theorem find_emplace {V} (m : SegMap V) (k k' : Nat) (v : V)
    (h : Inv m) (hk64 : k < 2^64) (hk'64 : k' < 2^64) :
    find (emplace m k v) k' = if k' = k then some v else find m k' := by
  obtain ⟨⟨seg, rest, rfl⟩, hs⟩ := h
  exact find_emplace_aux _ k k' v hs (by simp [headOff]) (by simp [headOff]) hk64 hk'64

theorem find_empty {V} (k : Nat) : find (empty : SegMap V) k = none := by
  simp [empty, find]

/-- the two parallel vectors of the C++ object -/
def toVectors {V} (m : SegMap V) : List Nat × List (List V) := (m.map (·.1), m.map (·.2))

end SegMap
end BinlogVerif
