"""C17 — timestamps."""
import random
import hashlib
import datetime
from checklib import *
from checks_reader import parse_kv, finish_proof, cases_count, report_corr

C17_THEOREMS = ['BinlogVerif.C17.c17_calendar', 'BinlogVerif.C17.c17_instant', 'BinlogVerif.C17.c17_fields',
                'BinlogVerif.C17.c17_year_range', 'BinlogVerif.C17.c17_printed_fields', 'BinlogVerif.C17.c17_printed_zone',
                'BinlogVerif.C17.c17_format', 'BinlogVerif.C17.c17_printed_instant', 'BinlogVerif.C17.c17_no_sync',
                'BinlogVerif.C17.c17_no_sync_iff', 'BinlogVerif.C17.c17_no_trap']

NS_2262 = 9214646400 * 10 ** 9
FULLFMT = b'%Y-%m-%d %H:%M:%S.%N %z %Z %y'


def boundary_ns(rng):
    """instants at second/day/leap-year/century boundaries within [1970, 2262)"""
    k = rng.randrange(8)
    if k == 0:
        return rng.choice([0, 1, 999999999, 10 ** 9, 86400 * 10 ** 9 - 1, 86400 * 10 ** 9, NS_2262 - 1])
    if k == 1 and rng.random() < 0.4:
        # the last days of February and the first of March, in leap years, century years and ordinary years
        y = rng.choice([1972, 2000, 2000, 2024, 2100, 2096, 2200, 2261, 1999, 2400 - 200])
        leap = y % 4 == 0 and (y % 100 != 0 or y % 400 == 0)
        day = rng.choice([27, 28] + ([29] if leap else []))
        d = datetime.datetime(y, 2, day) - datetime.datetime(1970, 1, 1)
        base = int(d.total_seconds()) + rng.choice([0, 1, 43200, 86399, 86400, 86401, 2 * 86400 - 1, 2 * 86400])
        return min(NS_2262 - 1, base * 10 ** 9 + rng.choice([0, 1, 999999999, rng.randrange(10 ** 9)]))
    if k == 1:
        y = rng.choice([1972, 2000, 2024, 2100, 2096, 2200, 2261, 1999])
        d = datetime.datetime(y, rng.choice([2, 3, 12, 1]), rng.choice([28, 1, 31 if False else 27])) - datetime.datetime(1970, 1, 1)
        base = int(d.total_seconds()) + rng.choice([0, 86399, 86400, 2 * 86400 - 1, 2 * 86400])
        return min(NS_2262 - 1, base * 10 ** 9 + rng.choice([0, 1, 999999999, rng.randrange(10 ** 9)]))
    return rng.randrange(NS_2262)


def gen_case(rng):
    """(dateFmt, cs tuple, clock, exact instant T in ns as a Fraction-free pair)"""
    f = rng.choice([1, 3, 1000, 10 ** 6, 10 ** 9, 10 ** 9, 2400000000, 3 * 10 ** 9, 4 * 10 ** 9, 9199999999,
                    rng.randrange(1, 9200000000)])
    T = boundary_ns(rng)
    # choose the sync point before or after T, anywhere in range
    syncNs = rng.choice([0, T, boundary_ns(rng), boundary_ns(rng)])
    syncClock = rng.choice([0, 123, rng.randrange(1 << 64), (1 << 64) - 1, 1 << 63])
    # clock = syncClock + round((T - syncNs) * f / 1e9) if representable
    ticks = (T - syncNs) * f // 10 ** 9
    clock = syncClock + ticks
    if not (0 <= clock < (1 << 64)):
        syncClock = rng.randrange(1 << 62, 1 << 63) if ticks > 0 else rng.randrange(1 << 63, (1 << 64))
        clock = syncClock + ticks
        if not (0 <= clock < (1 << 64)):
            syncClock = max(0, -ticks) if ticks < 0 else 0
            clock = syncClock + ticks
            if not (0 <= clock < (1 << 64)) or not (0 <= syncClock < (1 << 64)):
                return gen_case(rng)
    tz = rng.choice([0, 3600, -3600, 19800, -43200, 50400, rng.randrange(-86399, 86400)])
    name = rng.choice([b'UTC', b'CET', b'', b'+0530', b'A\x00B'])
    fmt = rng.choice([FULLFMT, FULLFMT, b'%Y%m%d', b'%N', b'%H:%M:%S', b'%q%%%', b'%', b'x%Yy', b'%z'])
    return fmt, (syncClock, f, syncNs, tz & 0xffffffff, name), clock, (syncNs, f, ticks, tz)


def hostile_case(rng):
    fmt = rng.choice([FULLFMT, b'%y %z', b'%Y', b'%'])
    cs = (rng.randrange(1 << 64), rng.choice([0, 1, (1 << 63), (1 << 64) - 1, rng.randrange(1 << 64), 10 ** 9]),
          rng.choice([0, 1 << 63, (1 << 64) - 1, rng.randrange(1 << 64)]),
          rng.choice([0x80000000, 0x7fffffff, 0xffffffff, 360000, rng.randrange(1 << 32)]), rng.choice([b'', b'Z']))
    return fmt, cs, rng.randrange(1 << 64), None


def expected_fields(ns):
    """python's proleptic Gregorian calendar as the independent oracle"""
    sec, nsec = divmod(ns, 10 ** 9)
    dt = datetime.datetime(1970, 1, 1) + datetime.timedelta(seconds=sec)
    return '%04d-%02d-%02d %02d:%02d:%02d.%09d' % (dt.year, dt.month, dt.day, dt.hour, dt.minute, dt.second, nsec)


def oracle_text(fmt, ns, tz, zone_name, utc):
    """what the date format must print for the instant `ns` (python's proleptic Gregorian calendar), zone offset `tz`:
    the documented fields; anything else as it stands"""
    shifted = ns + (0 if utc else tz * 10 ** 9)
    sec, nsec = divmod(shifted, 10 ** 9)
    dt = datetime.datetime(1970, 1, 1) + datetime.timedelta(seconds=sec)
    off = 0 if utc else tz
    fields = {ord('Y'): b'%d' % dt.year, ord('y'): b'%02d' % (dt.year % 100), ord('m'): b'%02d' % dt.month, ord('d'): b'%02d' % dt.day,
              ord('H'): b'%02d' % dt.hour, ord('M'): b'%02d' % dt.minute, ord('S'): b'%02d' % dt.second, ord('N'): b'%09d' % nsec,
              ord('z'): (b'+' if off >= 0 else b'-') + b'%02d%02d' % (abs(off) // 3600, abs(off) // 60 % 60),
              ord('Z'): b'UTC' if utc else zone_name.split(b'\x00')[0]}
    out, i = b'', 0
    while i < len(fmt):
        if fmt[i] == 37 and i + 1 < len(fmt):
            out += fields.get(fmt[i + 1], fmt[i:i + 2])
            i += 2
        else:
            out += fmt[i:i + 1]
            i += 1
    return out


def denotes(fmt, cs, exact, local_hex, utc_hex):
    """do the printed local and UTC texts denote sync + (clock - syncClock)/frequency (within 1 ns, as the single-instant monitor
    accepts)?  None = this case has no oracle (zone-shifted instant before the epoch in a partial format)"""
    syncNs, f, ticks, tz = exact
    ns_lo = syncNs + (ticks * 10 ** 9) // f if ticks >= 0 else syncNs - ((-ticks) * 10 ** 9 + f - 1) // f
    try:
        u, l = bytes.fromhex(utc_hex), bytes.fromhex(local_hex)
    except ValueError:
        return False
    if fmt != FULLFMT:
        if ns_lo + tz * 10 ** 9 < 0 or ns_lo < 0:
            return None
        return any(u == oracle_text(fmt, c, tz, cs[4], True) and l == oracle_text(fmt, c, tz, cs[4], False) for c in (ns_lo, ns_lo + 1))
    sign = '+' if tz >= 0 else '-'
    zone = '%s%02d%02d' % (sign, abs(tz) // 3600, abs(tz) // 60 % 60)
    for cand in (ns_lo, ns_lo + 1):
        if cand + tz * 10 ** 9 < -62135596800 * 10 ** 9 or cand < -62135596800 * 10 ** 9:
            return None
        if u.decode('latin1').startswith(expected_fields(cand) + ' +0000 UTC') and \
                l.decode('latin1').startswith(expected_fields(cand + tz * 10 ** 9) + ' ' + zone):
            return True
    return False


def gen_seq(rng):
    """instants printed one after the other by ONE printer: the same or nearby instants (same second, next second, next minute,
    next day) under clock syncs that differ in zone offset and name (logs of hosts in different zones concatenated, a zone or
    DST change while running), and unrelated instants in between"""
    fmt, cs, clock, exact = gen_case(rng)
    syncNs, f, ticks, tz = exact
    items = [(cs, clock, exact)]
    for _ in range(rng.choice([1, 2, 3, 5])):
        k = rng.randrange(6)
        if k == 0:
            _, cs2, clock2, exact2 = gen_case(rng)                      # unrelated
            items.append((cs2, clock2, exact2))
            continue
        pcs, pclock, pexact = items[-1]
        psync, pf, pticks, ptz = pexact
        dt_ns = rng.choice([0, 0, 1, 999, 10 ** 8, 10 ** 9, 60 * 10 ** 9, 86400 * 10 ** 9, -10 ** 8, -10 ** 9])
        dticks = dt_ns * pf // 10 ** 9
        tz2 = ptz if k == 1 else rng.choice([0, 3600, -3600, 19800, -18000, 7200, ptz + 3600 if ptz < 80000 else ptz - 3600])
        name2 = pcs[4] if k == 1 else rng.choice([b'UTC', b'CET', b'EST', b''])
        clock2 = pclock + dticks
        if not (0 <= clock2 < (1 << 64)):
            clock2, dticks = pclock, 0
        items.append(((pcs[0], pf, psync, tz2 & 0xffffffff, name2), clock2, (psync, pf, pticks + dticks, tz2)))
    return fmt, items


def check_c17(ctx):
    ok = proof_step(ctx, 'BinlogVerif.Props.C17', C17_THEOREMS)
    exe = build_harness('reader_harness')
    rng = random.Random(ctx.seed * 1000003 + 17)
    n = cases_count(ctx, 4000, 100000)
    cases = []
    # corpus first: the two fixed defects
    cases.append((FULLFMT, (0, 10 ** 9, 0, (-3600) & 0xffffffff, b'X'), 1800 * 10 ** 9 + 5 * 10 ** 8, (0, 10 ** 9, 1800 * 10 ** 9 + 5 * 10 ** 8, -3600)))
    cases.append((FULLFMT, (0, 4 * 10 ** 9, 0, 0, b'UTC'), 12 * 10 ** 18, (0, 4 * 10 ** 9, 12 * 10 ** 18, 0)))
    for i in range(n):
        cases.append(gen_case(rng) if i % 5 else hostile_case(rng))
    lines = ['time %s %d,%d,%d,%d,%s %d' % (f.hex() or '-', cs[0], cs[1], cs[2], cs[3], cs[4].hex(), clock) for f, cs, clock, _ in cases]
    impl, model, mism = diff_streams(ctx, 'time', exe, lines)
    prop_fail, nontrivial = set(), set()
    for i, (fmt, cs, clock, exact) in enumerate(cases):
        if i >= len(impl) or exact is None:
            continue
        if fmt != FULLFMT:
            # any other date format: every documented field against the oracle
            syncNs, f, ticks, tz = exact
            kv = parse_kv(impl[i])
            ns_lo = syncNs + (ticks * 10 ** 9) // f if ticks >= 0 else syncNs - ((-ticks) * 10 ** 9 + f - 1) // f
            okk = False
            try:
                u, l = bytes.fromhex(kv.get('utc', '')), bytes.fromhex(kv.get('local', ''))
                for cand in (ns_lo, ns_lo + 1):
                    if cand + tz * 10 ** 9 >= 0 and u == oracle_text(fmt, cand, tz, cs[4], True) and l == oracle_text(fmt, cand, tz, cs[4], False):
                        okk = True
                if ns_lo + tz * 10 ** 9 < 0:
                    okk = True      # zone-shifted instants before the epoch are covered by the full format only
            except ValueError:
                pass
            if not okk:
                prop_fail.add(i)
                ctx.violation('time-' + hashlib.sha256(lines[i].encode()).hexdigest()[:10],
                              'C17: a date field does not denote sync + (clock - syncClock)/frequency (format %r)' % fmt.decode('latin1'),
                              {'kind': 'input', 'input_line': lines[i], 'impl': impl[i], 'expected_utc': oracle_text(fmt, ns_lo, tz, cs[4], True).decode('latin1')})
            else:
                nontrivial.add(lines[i])
            continue
        syncNs, f, ticks, tz = exact
        kv = parse_kv(impl[i])
        # the exact instant, truncated toward the sync point, is within one ns: accept floor or floor+1
        ns_lo = syncNs + (ticks * 10 ** 9) // f if ticks >= 0 else syncNs - ((-ticks) * 10 ** 9 + f - 1) // f
        okk = False
        for cand in (ns_lo, ns_lo + 1):
            want_u = expected_fields(cand)
            want_l = expected_fields(cand + tz * 10 ** 9) if cand + tz * 10 ** 9 >= -62135596800 * 10 ** 9 else None
            try:
                u = bytes.fromhex(kv.get('utc', '')).decode('latin1')
                l = bytes.fromhex(kv.get('local', '')).decode('latin1')
            except ValueError:
                break
            sign = '+' if tz >= 0 else '-'
            zone = '%s%02d%02d' % (sign, abs(tz) // 3600, abs(tz) // 60 % 60)
            if u.startswith(want_u + ' +0000 UTC') and want_l and l.startswith(want_l + ' ' + zone):
                okk = True
        if not okk:
            prop_fail.add(i)
            key = {0: 'negative-zone-shifted-instant', 1: 'tick-distance-2^63'}.get(i, 'time-' + hashlib.sha256(lines[i].encode()).hexdigest()[:10])
            ctx.violation(key, 'C17: printed timestamp does not denote sync + (clock - syncClock)/frequency within 1 ns',
                          {'kind': 'input', 'input_line': lines[i], 'impl': impl[i], 'expected_utc': expected_fields(ns_lo)})
        else:
            nontrivial.add(lines[i])
    report_corr(ctx, 'time', lines, impl, model, mism, prop_fail)
    # sequences through one printer
    nseq = cases_count(ctx, 1200, 30000)
    seqs = [gen_seq(rng) for _ in range(nseq)]
    slines = ['timeseq %s %s' % (fmt.hex() or '-', ' '.join('%d,%d,%d,%d,%s/%d' % (cs[0], cs[1], cs[2], cs[3], cs[4].hex(), clock) for cs, clock, _ in items))
              for fmt, items in seqs]
    simpl, smodel, smism = diff_streams(ctx, 'timeseq', exe, slines)
    sfail = set()
    for i, (fmt, items) in enumerate(seqs):
        if i >= len(simpl) or simpl[i].startswith('<harness'):
            continue
        kv = parse_kv(simpl[i])
        ls, us = kv.get('local', '').split(','), kv.get('utc', '').split(',')
        if len(ls) != len(items) or len(us) != len(items):
            continue
        for j, (cs, clock, exact) in enumerate(items):
            if denotes(fmt, cs, exact, ls[j], us[j]) is False:
                sfail.add(i)
                prop_fail.add(('seq', i))
                if len(sfail) <= 3:
                    ctx.violation('timeseq-' + hashlib.sha256(slines[i].encode()).hexdigest()[:10],
                                  'C17: printed by one printer after other instants, timestamp %d of the sequence does not denote '
                                  'sync + (clock - syncClock)/frequency (format %r)' % (j + 1, fmt.decode('latin1')),
                                  {'kind': 'history', 'input_line': slines[i], 'impl': simpl[i], 'failing_index': j})
                break
        else:
            nontrivial.add(slines[i])
    report_corr(ctx, 'timeseq', slines, simpl, smodel, smism, set(i for i in sfail))
    finish_proof(ctx, ok, bool(prop_fail))
    ctx.coverage.update({'evaluations': len(lines), 'distinct_nontrivial': len(nontrivial),
                         'traces_validated_against_impl': len(lines) - len(mism),
                         'rule': 'boundary-biased (syncClock, frequency in [1, 9.2e9), syncTime, zone offset, clock) tuples with the '
                                 'instant inside [1970, 2262) before or after the sync point, second/day/leap-year/century boundaries, '
                                 'sub-ns periods, several date formats; every fifth case hostile (frequency 0/2^63, INT_MIN offsets, '
                                 'out-of-range instants) for trap freedom; oracle for the property: python datetime; '
                                 'non-trivial = in-range case with the full format; distinct by input line'})
    ctx.samples = lines[:3]
    return ctx.finish()


CHECKS = {'C17': check_c17}
