"""C20 — recovery tool robustness (and the image side of C08)."""
import os
import random
import hashlib
import subprocess
import sys
from concurrent.futures import ThreadPoolExecutor

sys.path.insert(0, os.path.join(os.path.dirname(os.path.abspath(__file__)), 'tools'))
import binlog_gen as G
from checklib import *
from checks_reader import parse_kv, finish_proof, cases_count

META_MAGIC = G.u64(0xFE214F726E35BDBC)
DATA_MAGIC = G.u64(0xFE213F716D34BCBC)

C20_THEOREMS = ['BinlogVerif.C20.c20_no_trap', 'BinlogVerif.C20.c20_whole_entries', 'BinlogVerif.C20.c20_in_bounds',
                'BinlogVerif.C20.c20_inconsistent_queue_emits_nothing']


def build_brecovery():
    """the real brecovery, built from the working tree with sanitizers"""
    objs = build_repo_objects()
    src = os.path.join(REPO, 'bin', 'brecovery.cpp')
    hh = file_hash(repo_sources()) + hashlib.sha256(' '.join(CXXFLAGS).encode()).hexdigest()[:6]
    exe = os.path.join(BUILD, 'bin', 'brecovery-%s' % hh)
    if os.path.exists(exe):
        return exe
    os.makedirs(os.path.dirname(exe), exist_ok=True)
    rc, out = sh(['g++'] + CXXFLAGS + ['-fno-sanitize=nonnull-attribute', src] + objs + ['-o', exe + '.tmp', '-lpthread'])
    if rc != 0:
        raise BuildError('brecovery does not build:\n' + out[-3000:])
    os.replace(exe + '.tmp', exe)
    return exe


def rand_entries(rng, n=None):
    n = rng.choice([0, 1, 2, 4]) if n is None else n
    return [G.rand_bytes(rng, 12) for _ in range(n)]


def metadata_block(rng, mutate):
    body = G.frames(rand_entries(rng))
    size = len(body)
    if mutate and rng.random() < 0.5:
        size = rng.choice([size + 1, size - 1 if size else 5, 1 << 40, (1 << 64) - 1, rng.randrange(200)])
    if mutate and rng.random() < 0.3 and body:
        body = body[:rng.randrange(len(body))] + bytes([rng.randrange(256)])
    return META_MAGIC + G.u64(rng.choice([1, 2, 0x7f0000001000])) + G.u64(size) + body


def data_block(rng, mutate):
    cap = rng.choice([0, 8, 16, 32, 64])
    entries = [G.frame(p) for p in rand_entries(rng)]
    buf = bytearray(rng.randrange(256) for _ in range(cap))
    # lay the entries out with a random start, wrapping like the real writer (an entry is never split)
    w = r = e = 0
    if cap:
        pos = rng.randrange(cap)
        r = pos
        e = 0
        wrapped = False
        for en in entries:
            if pos + len(en) <= cap and not (wrapped and pos + len(en) >= r):
                buf[pos:pos + len(en)] = en
                pos += len(en)
            elif not wrapped and len(en) < r:
                e = pos
                wrapped = True
                buf[0:len(en)] = en
                pos = len(en)
            else:
                break
        w = pos
        if not wrapped:
            e = rng.choice([0, pos, cap])
    if mutate:
        k = rng.randrange(6)
        if k == 0: w = rng.choice([cap + 1, 1 << 63, rng.randrange(cap + 1)])
        if k == 1: r = rng.choice([cap + 1, (1 << 64) - 1, rng.randrange(cap + 1)])
        if k == 2: e = rng.choice([cap + 1, 1 << 40, rng.randrange(cap + 1)])
        if k == 3: cap2 = rng.choice([cap + 1000, 1 << 50, 0]); return DATA_MAGIC + G.u64(3) + G.u64(w) + G.u64(e) + G.u64(cap2) + G.u64(0xdead) + G.u64(r) + bytes(buf)
    return DATA_MAGIC + G.u64(rng.choice([1, 2, 0x7f0000001000])) + G.u64(w) + G.u64(e) + G.u64(cap) + G.u64(0xdeadbeef) + G.u64(r) + bytes(buf)


def gen_image(rng):
    parts = []
    for _ in range(rng.choice([0, 1, 2, 3, 5])):
        k = rng.randrange(10)
        if k < 3:
            parts.append(bytes(rng.choice([0xBC, 0xBD, 0, rng.randrange(256)]) for _ in range(rng.randrange(0, 20))))
        elif k < 6:
            parts.append(metadata_block(rng, rng.random() < 0.4))
        elif k < 9:
            parts.append(data_block(rng, rng.random() < 0.4))
        else:
            parts.append(rng.choice([META_MAGIC, DATA_MAGIC])[:rng.randrange(1, 8)])
    img = b''.join(parts)
    if rng.random() < 0.25 and img:
        img = img[:rng.randrange(len(img))]
    return img


def run_brecovery(exe, images, workdir):
    def one(i):
        path = os.path.join(workdir, 'img%d' % i)
        with open(path, 'wb') as f:
            f.write(images[i])
        e = dict(os.environ); e['ASAN_OPTIONS'] = 'detect_leaks=0'
        p = subprocess.run([exe, path, '-'], stdout=subprocess.PIPE, stderr=subprocess.PIPE, env=e, timeout=120)
        os.remove(path)
        if p.returncode != 0:
            return 'out=CRASH:rc=%d:%s' % (p.returncode, p.stderr.decode('latin1')[-300:].replace(' ', '_').replace('\n', '|'))
        return 'out=' + p.stdout.hex()
    with ThreadPoolExecutor(max_workers=16) as ex:
        return list(ex.map(one, range(len(images))))


def whole_entries(b):
    pos = 0
    while pos < len(b):
        if pos + 4 > len(b): return False
        pos += 4 + int.from_bytes(b[pos:pos + 4], 'little')
    return pos == len(b)


def check_c20(ctx):
    ok = proof_step(ctx, 'BinlogVerif.Props.C20', C20_THEOREMS)
    exe = build_brecovery()
    rng = random.Random(ctx.seed * 1000003 + 20)
    n = cases_count(ctx, 1200, 20000)
    images = [gen_image(rng) for _ in range(n)]
    workdir = os.path.join(BUILD, 'rec-%d' % os.getpid())
    os.makedirs(workdir, exist_ok=True)
    impl = run_brecovery(exe, images, workdir)
    os.rmdir(workdir)
    lines = ['recover ' + G.hexs(img) for img in images]
    rc, model, err = run_lines(driver_path(), lines)
    mism, prop_fail, nontrivial = [], set(), set()
    for i in range(n):
        a = impl[i]
        b = model[i] if i < len(model) else '<none>'
        key = hashlib.sha256(lines[i].encode()).hexdigest()[:10]
        if a.startswith('out=CRASH'):
            prop_fail.add(i)
            ctx.violation('crash-' + key, 'C20: brecovery crashed / sanitizer report on an input image: ' + a[:300],
                          {'kind': 'input', 'image_hex': images[i].hex(), 'impl': a})
        elif not whole_entries(bytes.fromhex(a[4:])):
            prop_fail.add(i)
            ctx.violation('partial-' + key, 'C20: brecovery wrote something that is not a sequence of complete entries',
                          {'kind': 'input', 'image_hex': images[i].hex(), 'impl': a})
        elif a != b:
            mism.append(i)
            ctx.violation('corr-recover-' + key, 'correspondence recover broke: model and brecovery disagree',
                          {'kind': 'correspondence', 'stream': 'recover', 'image_hex': images[i].hex(), 'impl': a, 'model': b,
                           'broken': 'correspondence stream recover / Props.C20'}, found_input=False)
        if len(a) > 4:
            nontrivial.add(lines[i])
    ctx.streams['recover'] = {'cases': n, 'mismatches': len(mism), 'model_rc': rc}
    finish_proof(ctx, ok, bool(prop_fail))
    ctx.coverage.update({'evaluations': n, 'distinct_nontrivial': len(nontrivial), 'traces_validated_against_impl': n - len(mism),
                         'rule': 'synthetic images: garbage seeded with first-magic bytes, metadata blocks and queue blocks (valid; or with '
                                 'mutated sizes, indices > capacity, huge capacities, corrupt entry buffers), partial magic numbers, truncated '
                                 'tails; the real brecovery (ASan+UBSan) is run on each image file and its exact output compared with the model; '
                                 'non-trivial = the tool recovered at least one buffer; distinct by image'})
    ctx.samples = [lines[0][:300], lines[1][:300]]
    return ctx.finish()


CHECKS = {'C20': check_c20}
