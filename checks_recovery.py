"""C20 — recovery tool robustness (and the image side of C08)."""
import os
import random
import hashlib
import subprocess
import sys
from concurrent.futures import ThreadPoolExecutor

sys.path.insert(0, os.path.join(os.path.dirname(os.path.abspath(__file__)), 'tools'))
import binlog_gen as G
from checklib import *
from checks_reader import parse_kv, finish_proof, cases_count

META_MAGIC = G.u64(0xFE214F726E35BDBC)
DATA_MAGIC = G.u64(0xFE213F716D34BCBC)

C20_THEOREMS = ['BinlogVerif.C20.c20_no_trap', 'BinlogVerif.C20.c20_whole_entries', 'BinlogVerif.C20.c20_in_bounds',
                'BinlogVerif.C20.c20_inconsistent_queue_emits_nothing']


def build_brecovery():
    """the real brecovery, built from the working tree with sanitizers"""
    objs = build_repo_objects()
    src = os.path.join(REPO, 'bin', 'brecovery.cpp')
    hh = file_hash(repo_sources()) + hashlib.sha256(' '.join(CXXFLAGS).encode()).hexdigest()[:6]
    exe = os.path.join(BUILD, 'bin', 'brecovery-sv-%s' % hh)
    if os.path.exists(exe):
        return exe
    os.makedirs(os.path.dirname(exe), exist_ok=True)
    # _GLIBCXX_SANITIZE_VECTOR: AddressSanitizer also sees accesses between size() and capacity() of a std::vector
    rc, out = sh(['g++'] + CXXFLAGS + ['-fno-sanitize=nonnull-attribute', '-D_GLIBCXX_SANITIZE_VECTOR', src] + objs + ['-o', exe + '.tmp', '-lpthread'])
    if rc != 0:
        raise BuildError('brecovery does not build:\n' + out[-3000:])
    os.replace(exe + '.tmp', exe)
    return exe


def rand_entries(rng, n=None):
    n = rng.choice([0, 1, 2, 4]) if n is None else n
    return [G.rand_bytes(rng, 12) for _ in range(n)]


def metadata_block(rng, mutate):
    body = G.frames(rand_entries(rng))
    size = len(body)
    if mutate and rng.random() < 0.5:
        size = rng.choice([size + 1, size - 1 if size else 5, 1 << 40, (1 << 64) - 1, rng.randrange(200)])
    if mutate and rng.random() < 0.3 and body:
        body = body[:rng.randrange(len(body))] + bytes([rng.randrange(256)])
    return META_MAGIC + G.u64(rng.choice([1, 2, 0x7f0000001000])) + G.u64(size) + body


def data_block(rng, mutate):
    cap = rng.choice([0, 8, 16, 32, 64])
    entries = [G.frame(p) for p in rand_entries(rng)]
    buf = bytearray(rng.randrange(256) for _ in range(cap))
    # lay the entries out with a random start, wrapping like the real writer (an entry is never split)
    w = r = e = 0
    if cap:
        pos = rng.randrange(cap)
        r = pos
        e = 0
        wrapped = False
        for en in entries:
            if pos + len(en) <= cap and not (wrapped and pos + len(en) >= r):
                buf[pos:pos + len(en)] = en
                pos += len(en)
            elif not wrapped and len(en) < r:
                e = pos
                wrapped = True
                buf[0:len(en)] = en
                pos = len(en)
            else:
                break
        w = pos
        if not wrapped:
            e = rng.choice([0, pos, cap])
    if mutate:
        k = rng.randrange(7)
        if k == 0: w = rng.choice([cap + 1, 1 << 63, rng.randrange(cap + 1)])
        if k == 1: r = rng.choice([cap + 1, (1 << 64) - 1, rng.randrange(cap + 1)])
        if k == 2: e = rng.choice([cap + 1, 1 << 40, rng.randrange(cap + 1)])
        if k == 4:
            # every index on a boundary value, in every order relation to the others
            B = [0, 1, 2, cap // 2, max(cap - 1, 0), cap, cap + 1, cap + 2, 2 * cap, cap + abs(r - w)]
            w, e, r = rng.choice(B), rng.choice(B), rng.choice(B)
        if k == 5 and cap >= 2:
            # wrapped layout (w < r) whose dataEnd lies just beyond the capacity
            w = rng.randrange(0, cap)
            r = rng.randrange(w + 1, cap + 1)
            e = cap + rng.randrange(1, r - w + 1)
        if k == 6 and cap >= 2:
            # three in-range indices in every order relation (also the ones no writer/reader pair produces: r > w > dataEnd, …)
            vals = sorted(rng.sample(range(cap + 1), 3)) if rng.random() < 0.7 else sorted(rng.choices(range(cap + 1), k=3))
            rng.shuffle(vals)
            w, e, r = vals
        if k == 3: cap2 = rng.choice([cap + 1000, 1 << 50, 0]); return DATA_MAGIC + G.u64(3) + G.u64(w) + G.u64(e) + G.u64(cap2) + G.u64(0xdead) + G.u64(r) + bytes(buf)
    return DATA_MAGIC + G.u64(rng.choice([1, 2, 0x7f0000001000])) + G.u64(w) + G.u64(e) + G.u64(cap) + G.u64(0xdeadbeef) + G.u64(r) + bytes(buf)


def gen_many_image(rng):
    """an image of ONE process with many writers: 17..40 valid queue blocks of one session, most of them holding the same
    amount of data (or none), plus its metadata blocks - more recovered buffers than any small-input path of the sort handles"""
    session = rng.choice([1, 2, 0x7f0000001000])
    nq = rng.choice([17, 18, 24, 33, 40])
    same = G.frame(G.rand_bytes(rng, 12))
    parts = [META_MAGIC + G.u64(session) + G.u64(len(same)) + same, META_MAGIC + G.u64(session) + G.u64(0)]
    for i in range(nq):
        cap = 32
        body = same if rng.random() < 0.8 else (b'' if rng.random() < 0.5 else G.frame(G.rand_bytes(rng, 5)))
        buf = body + bytes(cap - len(body)) if len(body) <= cap else bytes(cap)
        w = len(body) if len(body) <= cap else 0
        parts.append(DATA_MAGIC + G.u64(session) + G.u64(w) + G.u64(0) + G.u64(cap) + G.u64(0xdeadbeef) + G.u64(0) + buf)
        if rng.random() < 0.2:
            parts.append(bytes(rng.randrange(256) for _ in range(rng.randrange(0, 9))))
    rng.shuffle(parts)
    return b''.join(parts)


def entries_multiset(b):
    out, pos = [], 0
    while pos + 4 <= len(b):
        n = int.from_bytes(b[pos:pos + 4], 'little')
        out.append(b[pos:pos + 4 + n])
        pos += 4 + n
    return sorted(out)


def gen_image(rng):
    if rng.random() < 0.04:
        return gen_many_image(rng)
    parts = []
    for _ in range(rng.choice([0, 1, 2, 3, 5])):
        k = rng.randrange(10)
        if k < 3:
            parts.append(bytes(rng.choice([0xBC, 0xBD, 0, rng.randrange(256)]) for _ in range(rng.randrange(0, 20))))
        elif k < 6:
            parts.append(metadata_block(rng, rng.random() < 0.4))
        elif k < 9:
            parts.append(data_block(rng, rng.random() < 0.4))
        else:
            parts.append(rng.choice([META_MAGIC, DATA_MAGIC])[:rng.randrange(1, 8)])
    img = b''.join(parts)
    if rng.random() < 0.25 and img:
        img = img[:rng.randrange(len(img))]
    return img


def run_brecovery(exe, images, workdir):
    def one(i):
        path = os.path.join(workdir, 'img%d' % i)
        with open(path, 'wb') as f:
            f.write(images[i])
        e = dict(os.environ); e['ASAN_OPTIONS'] = 'detect_leaks=0'
        p = subprocess.run([exe, path, '-'], stdout=subprocess.PIPE, stderr=subprocess.PIPE, env=e, timeout=120)
        os.remove(path)
        if p.returncode != 0:
            return 'out=CRASH:rc=%d:%s' % (p.returncode, p.stderr.decode('latin1')[-300:].replace(' ', '_').replace('\n', '|'))
        return 'out=' + p.stdout.hex()
    with ThreadPoolExecutor(max_workers=16) as ex:
        return list(ex.map(one, range(len(images))))


def whole_entries(b):
    pos = 0
    while pos < len(b):
        if pos + 4 > len(b): return False
        pos += 4 + int.from_bytes(b[pos:pos + 4], 'little')
    return pos == len(b)


def check_c20(ctx):
    ok = proof_step(ctx, 'BinlogVerif.Props.C20', C20_THEOREMS)
    exe = build_brecovery()
    rng = random.Random(ctx.seed * 1000003 + 20)
    n = cases_count(ctx, 1200, 20000)
    images = [gen_image(rng) for _ in range(n)]
    workdir = os.path.join(BUILD, 'rec-%d' % os.getpid())
    os.makedirs(workdir, exist_ok=True)
    impl = run_brecovery(exe, images, workdir)
    os.rmdir(workdir)
    lines = ['recover ' + G.hexs(img) for img in images]
    rc, model, err = run_model_lines(lines)
    mism, prop_fail, nontrivial = [], set(), set()
    for i in range(n):
        a = impl[i]
        b = model[i] if i < len(model) else '<none>'
        key = hashlib.sha256(lines[i].encode()).hexdigest()[:10]
        if a.startswith('out=CRASH'):
            prop_fail.add(i)
            ctx.violation('crash-' + key, 'C20: brecovery crashed / sanitizer report on an input image: ' + a[:300],
                          {'kind': 'input', 'image_hex': images[i].hex(), 'impl': a})
        elif not whole_entries(bytes.fromhex(a[4:])):
            prop_fail.add(i)
            ctx.violation('partial-' + key, 'C20: brecovery wrote something that is not a sequence of complete entries',
                          {'kind': 'input', 'image_hex': images[i].hex(), 'impl': a})
        elif a != b and images[i].count(DATA_MAGIC) > 16 and b.startswith('out=') and not b.startswith('out=ERR') \
                and entries_multiset(bytes.fromhex(a[4:])) == entries_multiset(bytes.fromhex(b[4:])):
            pass      # more than 16 buffers: std::sort is not stable, buffers that tie on (session, type) may come in any order
        elif a != b:
            mism.append(i)
            ctx.violation('corr-recover-' + key, 'correspondence recover broke: model and brecovery disagree',
                          {'kind': 'correspondence', 'stream': 'recover', 'image_hex': images[i].hex(), 'impl': a, 'model': b,
                           'broken': 'correspondence stream recover / Props.C20'}, found_input=False)
        if len(a) > 4:
            nontrivial.add(lines[i])
    ctx.streams['recover'] = {'cases': n, 'mismatches': len(mism), 'model_rc': rc}
    finish_proof(ctx, ok, bool(prop_fail))
    ctx.coverage.update({'evaluations': n, 'distinct_nontrivial': len(nontrivial), 'traces_validated_against_impl': n - len(mism),
                         'rule': 'synthetic images: garbage seeded with first-magic bytes, metadata blocks and queue blocks (valid; or with '
                                 'mutated sizes, indices > capacity, huge capacities, corrupt entry buffers), partial magic numbers, truncated '
                                 'tails; the real brecovery (ASan+UBSan) is run on each image file and its exact output compared with the model; '
                                 'non-trivial = the tool recovered at least one buffer; distinct by image'})
    ctx.samples = [lines[0][:300], lines[1][:300]]
    return ctx.finish()


CHECKS = {'C20': check_c20}


# ------------------------------------------------------------------------------------------
# C08 — crash recovery from real memory images
# ------------------------------------------------------------------------------------------
import struct
import checks_session as CS

C08_THEOREMS = ['BinlogVerif.C08.c08_scan_blocks', 'BinlogVerif.C08.c08_scan_blocks_filler', 'BinlogVerif.C08.c08_meta_state_buffers',
                'BinlogVerif.C08.c08_recovered_sorted', 'BinlogVerif.C08.c08_recovered_content', 'BinlogVerif.C08.c08_no_uncommitted',
                'BinlogVerif.C08.c08_recovered_entries', 'BinlogVerif.C08.c08_complete_and_printable',
                'BinlogVerif.C08.c08_complete_and_printable_states',
                'BinlogVerif.C08.c08_scan_blocks_inert', 'BinlogVerif.C08.c08_recovered_sorted_inert', 'BinlogVerif.C08.c08_recovered_content_inert',
                'BinlogVerif.C08.c08_no_uncommitted_inert', 'BinlogVerif.C08.c08_complete_and_printable_inert',
                'BinlogVerif.C08.c08_recovered_output_junk', 'BinlogVerif.C08.c08_no_uncommitted_junk',
                'BinlogVerif.C08.c08_sessions_sorted', 'BinlogVerif.C08.c08_two_sessions', 'BinlogVerif.Image.expectedItems_after',
                'BinlogVerif.Image.mergeSort_partition']


def build_crash_harness():
    src = os.path.join(VERIF, 'harness', 'crash_harness.cpp')
    hh = file_hash([src] + repo_sources())
    exe = os.path.join(BUILD, 'bin', 'crash_harness-%s' % hh)
    if os.path.exists(exe):
        return exe
    os.makedirs(os.path.dirname(exe), exist_ok=True)
    # no sanitizers: the child dumps every writable mapping, ASan's shadow memory would be terabytes
    rc, out = sh(['g++', '-std=c++17', '-O1', '-g', '-UNDEBUG', '-D' + HOOK_GUARD, '-I' + os.path.join(REPO, 'include'), src, '-o', exe + '.tmp'])
    if rc != 0:
        raise BuildError('crash harness does not build:\n' + out[-3000:])
    os.replace(exe + '.tmp', exe)
    return exe


def crash_script(rng):
    base = CS.gen_session_script(rng, rotations=False)
    ops = [o.strip() for o in base.split('|')][1:]
    # the crash harness knows a subset of the ops; sources are registered often so that the metadata vector reallocates
    keep = []
    # an earlier session of the process, destroyed with unconsumed events: stale queues in freed heap memory
    if rng.random() < 0.6:
        for _ in range(rng.choice([1, 2, 3])):
            keep.append('pre %d %d' % (rng.choice([24, 30, 48, 64, 100, 128, 1024]), rng.choice([1, 2, 3])))
    # other live sessions of the process (ids of their event sources start at 1 again), created before, between or after the
    # operations of the main one
    others = {}
    if rng.random() < 0.5:
        for j in range(rng.choice([1, 1, 2])):
            others.setdefault(rng.randrange(len(ops) + 1), []).append('other %d %d %d' % (8000 + j, rng.choice([64, 128, 1024]), rng.choice([1, 2, 3])))
    for i, o in enumerate(ops + [None]):
        keep.extend(others.get(i, []))
        if o is None:
            break
        t = o.split(' ')
        if t[0] in ('cw', 'src', 'log', 'dw', 'cs', 'consume', 'sname'):
            keep.append(o)
        if t[0] == 'log' and rng.random() < 0.3:
            keep.append('src 128 %s %s 662e637070 %d 6d207b7d 49' % (G.rand_bytes(rng, 20, b'catego').hex() or '-', G.rand_bytes(rng, 30, b'function_').hex() or '-', rng.randrange(99)))
    return keep


def run_crash(exe, brec, ops, point, k, workdir, tag):
    dump = os.path.join(workdir, 'core-%s' % tag)
    line = 'crash %s %d | ' % (point, k) + ' | '.join(ops)
    e = dict(os.environ); e['VERIF_DUMP'] = dump
    p = subprocess.run([exe], input=(line + '\n').encode(), stdout=subprocess.PIPE, stderr=subprocess.PIPE, env=e, timeout=120)
    out = p.stdout.decode()
    res = {'line': line, 'stdout': out.strip()[-400:]}
    if 'CRASHED' not in out:
        res['status'] = 'nocrash'
        return res
    kv = parse_kv([l for l in out.split('\n') if l.startswith('CRASHED')][0])
    completed = [tuple(int(x) for x in c.split(':')) for c in kv.get('completed', '').split(',') if c]
    consumed = open(dump + '.out', 'rb').read() if os.path.exists(dump + '.out') else b''
    e2 = dict(os.environ); e2['ASAN_OPTIONS'] = 'detect_leaks=0'
    q = subprocess.run([brec, dump, '-'], stdout=subprocess.PIPE, stderr=subprocess.PIPE, env=e2, timeout=300)
    with open(dump, 'rb') as f:
        blocks, rejected, compact = scan_image(f.read())
    res['hyp'] = image_hypotheses(blocks, point)
    res['rejected'] = rejected
    res['empty_junk'] = sum(1 for b in blocks if not (b.get('content') or b.get('pending')))
    res['compact'] = compact
    res['nblocks'] = len(blocks)
    # the same blocks with parts of a magic number in front of them: the real tool must recover the same
    res['near'] = None
    if blocks:
        with open(dump, 'rb') as f:
            near = near_magic_compact(f.read(), blocks, k)
        for name, data in (('plain', compact), ('near', near)):
            with open(dump + '.' + name, 'wb') as f:
                f.write(data)
        qa = subprocess.run([brec, dump + '.plain', '-'], stdout=subprocess.PIPE, stderr=subprocess.PIPE, env=e2, timeout=300)
        qb = subprocess.run([brec, dump + '.near', '-'], stdout=subprocess.PIPE, stderr=subprocess.PIPE, env=e2, timeout=300)
        if qa.returncode != qb.returncode or qa.stdout != qb.stdout:
            res['near'] = {'image_hex': near.hex()[:40000], 'rc_plain': qa.returncode, 'rc_near': qb.returncode,
                           'recovered_plain': qa.stdout.hex()[:4000], 'recovered_near': qb.stdout.hex()[:4000]}
        for name in ('plain', 'near'):
            os.remove(dump + '.' + name)
    for f in (dump, dump + '.out'):
        if os.path.exists(f):
            os.remove(f)
    res.update({'status': 'crashed', 'completed': completed, 'consumed': consumed, 'recovered': q.stdout, 'brecovery_rc': q.returncode,
                'brecovery_err': q.stderr.decode('latin1')[-300:], 'brecovery_log': q.stderr.decode('latin1')})
    return res


def scan_image(img, max_block=1 << 24):
    """the scan of the recovery tool (Reader/Recovery.lean `scan`) replayed on a real memory image: every magic number the scan
    stops at is either ACCEPTED as a block (and jumped over) or REJECTED (the scan resumes right behind the 8 magic bytes).
    Returns (accepted blocks, number of rejected candidates, compact image).  The compact image is the accepted blocks
    separated by 8 zero bytes: what the image is to the tool if the rest of the memory is inert (`Image.Inert`)."""
    blocks, rejected = [], 0
    pos = 0
    n = len(img)
    while True:
        pm, pd = img.find(META_MAGIC, pos), img.find(DATA_MAGIC, pos)
        cands = [x for x in (pm, pd) if x != -1]
        if not cands:
            break
        at = min(cands)
        body = at + 8
        b = None
        if at == pm:
            if body + 16 <= n:
                size = int.from_bytes(img[body + 8:body + 16], 'little')
                if size <= n - (body + 16):
                    content = img[body + 16:body + 16 + size]
                    if CS.parse_entries(content) is not None:
                        b = {'kind': 'meta', 'pos': at, 'session': int.from_bytes(img[body:body + 8], 'little'), 'size': size,
                             'content': content, 'end': body + 16 + size}
        else:
            if body + 48 <= n:
                f = [int.from_bytes(img[body + 8 * i:body + 8 + 8 * i], 'little') for i in range(6)]
                sess, w, e, cap, ptr, r = f
                if w <= cap and e <= cap and r <= cap and cap <= n - (body + 48):
                    buf = img[body + 48:body + 48 + cap]
                    data = buf[r:w] if r <= w else ((buf[r:e] + buf[:w]) if r < e else buf[:w])
                    if CS.parse_entries(data) is not None:
                        b = {'kind': 'data', 'pos': at, 'session': sess, 'w': w, 'e': e, 'cap': cap, 'r': r, 'pending': data, 'end': body + 48 + cap}
        if b is None:
            rejected += 1
            pos = body
        else:
            blocks.append(b)
            pos = b['end']
    compact = b''
    for b in blocks:
        compact += bytes(8) + img[b['pos']:b['end']]
    return blocks, rejected, compact + bytes(8)


def near_magic_compact(img, blocks, salt):
    """the accepted blocks of a real image again, each preceded by eight bytes that contain the first byte of the magic numbers
    (0xBC) one to seven positions in front of the block - what a malloc chunk header or the tail of a neighbouring object can
    look like.  No complete magic number starts in these bytes, so the tool must find exactly the same blocks."""
    out = b''
    for i, b in enumerate(blocks):
        k = (salt + 3 * i) % 9
        sep = bytearray(8)
        if k < 7:
            sep[7 - k] = 0xBC                   # one 0xBC, 1..7 bytes before the block
        elif k == 7:
            sep[6] = sep[7] = 0xBC              # two of them right in front of it
        else:
            sep[2] = sep[5] = 0xBC
        out += bytes(sep) + img[b['pos']:b['end']]
    return out + bytes(8)


def image_hypotheses(blocks, point):
    """are the hypotheses of the C08 theorems (ImageOkI / Represents: Conc/Image.lean, Lemmas/ImageSession.lean) met by this
    real image?  Everything the tool accepts must be a block of the one live session, in one of the states of `MetaState`
    for the crash point.  Returns a text when they are not."""
    sessions = {}
    live = [b for b in blocks if (b.get('content') or b.get('pending'))]
    # accepted candidates with an EMPTY buffer (stale magic numbers on the stack followed by a pointer and zeros) contribute
    # nothing to the output (`Image.InertE`); empty blocks of the live session are its real, still empty blocks
    live_sessions = set(b['session'] for b in live) or set(b['session'] for b in blocks if b['kind'] == 'data')
    if not live_sessions:
        return None          # nothing but empty buffers: the recovered log is empty
    # the session that is inside an operation may have nothing but empty buffers yet (a session under construction)
    allmeta = {}
    for b in blocks:
        if b['kind'] == 'meta':
            allmeta[b['session']] = allmeta.get(b['session'], 0) + 1
    growing_any = sum(1 for k, n in allmeta.items() if n == 3)
    blocks = [b for b in blocks if b['session'] in live_sessions]
    for b in blocks:
        sessions.setdefault(b['session'], []).append(b)
    # several live sessions (c08_sessions_*): every one of them is an image of the one-session model; at most one of them is
    # inside an operation at the crash point
    meta_sessions = [k for k, v in sessions.items() if any(b['kind'] == 'meta' for b in v)]
    if len(meta_sessions) != len(sessions):
        return 'the tool accepts a block of a session that has no metadata in the image (stale queue?): sessions %s' % sorted(sessions)
    growing = 0
    for k, v in sorted(sessions.items()):
        n = sum(1 for b in v if b['kind'] == 'meta')
        if n == 3 and point == 'meta-magic-set':
            growing += 1
            contents = sorted(b['content'] for b in v if b['kind'] == 'meta')
            if contents[0] != contents[1] and contents[1] != contents[2]:
                return 'while growing with both magic numbers set the old and the new block differ (MetaState.growingBoth fails)'
        elif n != 2:
            return '%d metadata blocks of one session carry the magic number at crash point %s, the image model (MetaState) says %d' % (n, point, 2)
    if max(growing, growing_any) != (1 if point == 'meta-magic-set' else 0):
        return '%d sessions have three metadata blocks with the magic number at crash point %s' % (max(growing, growing_any), point)
    return None


def analyse_crash(res, attempted):
    """the C08 monitor on one real image"""
    if res['brecovery_rc'] != 0:
        return 'brecovery exited with %d: %s' % (res['brecovery_rc'], res['brecovery_err'])
    rec = CS.parse_entries(res['recovered'])
    if rec is None:
        return 'the recovered log is not a sequence of whole entries'
    cons = CS.parse_entries(res['consumed'])
    if cons is None:
        return 'the consumed output is not a sequence of whole entries'
    def events(ps):
        out = []
        for p in ps:
            tg = CS.tag_of(p)
            if tg is not None and tg < (1 << 63) and len(p) >= 24:
                out.append((tg,) + struct.unpack('<II', p[16:24]))
        return out
    rec_ev, cons_ev = events(rec), events(cons)
    have = set((w, s) for _, w, s in rec_ev) | set((w, s) for _, w, s in cons_ev)
    for c in res['completed']:
        if c not in have:
            return 'event (writer %d, seq %d) whose log call had completed is neither in the output so far nor in the recovered log' % c
    # printable: source and clock sync precede each event within the recovered log
    defined, seen_cs = {}, False
    for p in rec:
        tg = CS.tag_of(p)
        if tg == CS.TAG_CS:
            seen_cs = True
        elif tg == CS.TAG_SOURCE:
            defined[int.from_bytes(p[8:16], 'little')] = p
        elif tg is not None and tg < (1 << 63):
            if tg not in defined:
                return 'recovered event of source id %d is not printable: its event source is not in the recovered log' % tg
            # ... and it is ITS session's source: the event sources of the other live sessions say `other {}`
            if len(p) >= 24 and (8000 <= struct.unpack('<I', p[16:20])[0] < 9000) != (b'other {}' in defined[tg]):
                return ('recovered event (writer %d, seq %d) would be printed with the event source that another session of the process '
                        'registered under the same id %d' % (struct.unpack('<II', p[16:24]) + (tg,)))
            if not seen_cs:
                return 'recovered event is not printable: no clock sync in the recovered log'
    # nothing uncommitted / torn
    for tg, w, s in rec_ev:
        if (w, s) not in attempted:
            return 'recovered an event (writer %d, seq %d) that was never logged (torn or uncommitted data)' % (w, s)
    # events recovered from ONE queue keep their order: split the output into the buffers brecovery wrote (its own log)
    import re as _re
    for m in _re.finditer(r'Write (\d+) bytes of recovered Data to output at offset (\d+)', res.get('brecovery_log', '')):
        n, off = int(m.group(1)), int(m.group(2))
        seg = CS.parse_entries(res['recovered'][off:off + n]) or []
        last = {}
        for tg, w, s in events(seg):
            if w in last and s <= last[w]:
                return 'events recovered from one queue (writer %d) are out of order' % w
            last[w] = s
    return None


def check_c08(ctx):
    ok = proof_step(ctx, 'BinlogVerif.Props.C20', C08_THEOREMS) if not C08_THEOREMS else proof_step(ctx, 'BinlogVerif.Props.C08', C08_THEOREMS)
    exe = build_crash_harness()
    brec = build_brecovery()
    rng = random.Random(ctx.seed * 1000003 + 8)
    nscripts = cases_count(ctx, 6, 60)
    per_point = cases_count(ctx, 6, 40)
    workdir = os.path.join(BUILD, 'c08-%d' % os.getpid())
    os.makedirs(workdir, exist_ok=True)
    jobs = []
    for si in range(nscripts):
        ops = crash_script(rng)
        attempted = set()
        for o in ops:
            t = o.split(' ')
            if t[0] == 'log':
                attempted.add(struct.unpack('<II', bytes.fromhex(t[4])[:8]))
            if t[0] == 'other':
                attempted.update((int(t[1]), k_) for k_ in range(int(t[3])))
        # hit counts of every point for this script
        p = subprocess.run([exe], input=('crash none 0 | ' + ' | '.join(ops) + '\n').encode(), stdout=subprocess.PIPE, stderr=subprocess.PIPE,
                           env=dict(os.environ, VERIF_DUMP=os.path.join(workdir, 'unused')), timeout=120)
        hits = {}
        for kv in p.stdout.decode().split('hits=')[-1].strip().split(','):
            if ':' in kv:
                a, b = kv.split(':'); hits[a] = int(b)
        for point, n in sorted(hits.items()):
            ks = list(range(1, n + 1))
            if len(ks) > per_point:
                ks = sorted(rng.sample(ks, per_point))
            for k in ks:
                jobs.append((si, ops, attempted, point, k))
    def one(j):
        si, ops, attempted, point, k = j
        res = run_crash(exe, brec, ops, point, k, workdir, '%d-%s-%d' % (si, point, k))
        what = analyse_crash(res, attempted) if res['status'] == 'crashed' else None
        return j, res, what
    with ThreadPoolExecutor(max_workers=12) as ex:
        results = list(ex.map(one, jobs))
    try:
        os.rmdir(workdir)
    except OSError:
        pass
    by_point, prop_fail, nontrivial = {}, set(), set()
    for (si, ops, attempted, point, k), res, what in results:
        st = by_point.setdefault(point, {'images': 0, 'violations': 0, 'with_recovered_events': 0})
        if res['status'] != 'crashed':
            continue
        st['images'] += 1
        if res['recovered']:
            nontrivial.add((si, point, k))
        if b'' != res['recovered'] and any(CS.tag_of(p) is not None and CS.tag_of(p) < (1 << 63) for p in (CS.parse_entries(res['recovered']) or [])):
            st['with_recovered_events'] += 1
        if what:
            st['violations'] += 1
            prop_fail.add((si, point, k))
            key = 'metadata-realloc-window' if point in ('meta-magic-cleared', 'meta-inserted') and 'event source is not in the recovered log' in what else \
                'crash-%s-%s' % (point, hashlib.sha256(res['line'].encode()).hexdigest()[:8])
            ctx.violation(key, 'C08: from the memory image taken at crash point %s (hit %d): %s' % (point, k, what),
                          {'kind': 'crash_point', 'script': res['line'], 'point': point, 'hit': k, 'completed': res['completed'],
                           'recovered_hex': res['recovered'].hex()[:4000], 'consumed_bytes': len(res['consumed']),
                           'replay': 'echo "<script>" | VERIF_DUMP=/tmp/core build/bin/crash_harness-* && build/bin/brecovery-* /tmp/core -'})
    near_fail = 0
    for (si, ops, attempted, point, k), res, what in results:
        if res['status'] == 'crashed' and res.get('near'):
            near_fail += 1
            prop_fail.add((si, point, k, 'near'))
            if near_fail <= 3:
                ctx.violation('near-magic-%s-%d' % (point, k), 'C08: the blocks of a real memory image are not all recovered when bytes that look like the start '
                              'of a magic number (0xBC) lie in the eight bytes in front of them: the tool recovers something else than from the same blocks behind zero bytes',
                              dict({'kind': 'input', 'script': res['line'], 'point': point, 'hit': k}, **res['near']))
    ctx.streams['crash_images'] = by_point
    ctx.streams['near_magic_images'] = {'images': sum(1 for _, r, _ in results if r['status'] == 'crashed' and r.get('nblocks')), 'differences': near_fail}
    # tie of the image model: (1) the hypotheses of the theorems hold of every real image; (2) the model of the recovery tool, run
    # on the blocks of the real image, produces exactly what the real tool produced from the full image
    crashed = [(j, res) for j, res, what in results if res['status'] == 'crashed']
    hyp_fail = 0
    for (si, ops, attempted, point, k), res in crashed:
        if res.get('hyp') and (si, point, k) not in prop_fail:
            hyp_fail += 1
            if hyp_fail <= 3:
                ctx.violation('corr-image-hyp-%s-%d' % (point, k), 'correspondence image-hypotheses broke: a real memory image does not satisfy the hypotheses of the C08 theorems: ' + res['hyp'],
                              {'kind': 'correspondence', 'stream': 'image_hypotheses', 'script': res['line'], 'point': point, 'hit': k,
                               'broken': 'hypotheses ImageOk / Represents of BinlogVerif.C08.c08_complete_and_printable on a real image'}, found_input=False)
    lines = ['recover ' + G.hexs(res['compact']) for _, res in crashed]
    rc, model, err = run_model_lines(lines)
    mm = 0
    for i, ((si, ops, attempted, point, k), res) in enumerate(crashed):
        want = 'out=' + res['recovered'].hex() if res['brecovery_rc'] == 0 else 'out=CRASH'
        got = model[i] if i < len(model) else '<none>'
        if got != want and res['nblocks'] > 16 and got.startswith('out=') and want.startswith('out=') and want != 'out=CRASH' \
                and not got.startswith('out=ERR') and entries_multiset(bytes.fromhex(got[4:])) == entries_multiset(bytes.fromhex(want[4:])):
            continue      # more than 16 buffers: std::sort is not stable, buffers that tie on (session, type) may come in any order
        if got != want and (si, point, k) not in prop_fail and not res.get('hyp'):
            mm += 1
            if mm <= 3:
                ctx.violation('corr-image-recover-%s-%d' % (point, k), 'correspondence image_recover broke: the model of the recovery tool on the blocks of a real image differs from what the real tool recovered',
                              {'kind': 'correspondence', 'stream': 'image_recover', 'script': res['line'], 'point': point, 'hit': k, 'model': got[:2000],
                               'impl': want[:2000], 'compact_image_hex': res['compact'].hex()[:20000], 'broken': 'correspondence stream image_recover / Props.C08'},
                              found_input=False)
    ctx.streams['image_model'] = {'images': len(crashed), 'hypotheses_not_met': hyp_fail, 'recover_mismatches': mm, 'model_rc': rc,
                                  'blocks_per_image_max': max([res['nblocks'] for _, res in crashed] or [0]),
                                  'accepted_empty_buffers_total': sum(res.get('empty_junk', 0) for _, res in crashed),
                                  'rejected_magic_candidates_total': sum(res.get('rejected', 0) for _, res in crashed)}
    finish_proof(ctx, ok, bool(prop_fail))
    total = sum(s['images'] for s in by_point.values())
    ctx.coverage.update({'evaluations': total, 'distinct_nontrivial': len(nontrivial), 'traces_validated_against_impl': total - len(prop_fail),
                         'rule': 'session scripts (several writers, small queues forcing wrap and replacement, other LIVE sessions of the same process '
                                 'whose event source ids overlap with the main one, earlier dead sessions, frequent source registration '
                                 'so that the metadata vectors reallocate, consumes, destroys) run on the real library; at every hook point between '
                                 'two memory writes (queue bytes/commit/wrap/release, metadata magic-clear/insert/magic-set/size-update, channel '
                                 'construction/destruction steps, consume writes, operation boundaries; all hits or a sample per point) the process '
                                 'forks and dumps all writable mappings; the real brecovery runs on the dump and the monitor checks completeness, '
                                 'printability, no torn/uncommitted event, per-writer order; non-trivial = something was recovered'})
    ctx.samples = [results[0][1]['line'][:300]] if results else ['(none)']
    return ctx.finish('fault_enumeration' if not C08_THEOREMS else 'proof')


CHECKS['C08'] = check_c08
