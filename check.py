#!/usr/bin/env python3
"""Single entry point of the verification machinery:  check.py <property id> [--tier quick|thorough]
[--replay <file>].  Exit 0 = property held on everything explored (or only KNOWN-FINDING lines);
exit 1 + `VIOLATION property=<id> replay=<path>` otherwise."""
import argparse
import json
import os
import sys
import traceback

HERE = os.path.dirname(os.path.abspath(__file__))
sys.path.insert(0, HERE)
import checklib


def registry():
    reg = {}
    import checks_reader
    reg.update(checks_reader.CHECKS)
    for mod in ('checks_queue', 'checks_mser', 'checks_session', 'checks_time', 'checks_recovery', 'checks_robust'):
        try:
            m = __import__(mod)
            reg.update(m.CHECKS)
        except ImportError:
            pass
    return reg


def main():
    ap = argparse.ArgumentParser()
    ap.add_argument('pid')
    ap.add_argument('--tier', default=os.environ.get('VERIF_TIER', 'quick'))
    ap.add_argument('--replay')
    a = ap.parse_args()
    if a.tier not in ('quick', 'thorough'):
        a.tier = 'quick'
    seed = int(os.environ.get('VERIF_SEED', '1') or '1')
    reg = registry()
    if a.pid not in reg:
        print('unknown property', a.pid)
        return 2
    ctx = checklib.Ctx(a.pid, a.tier, seed)
    ctx.replay_file = a.replay
    os.makedirs(checklib.BUILD, exist_ok=True)
    try:
        return reg[a.pid](ctx)
    except checklib.BuildError as e:
        # the harness no longer builds against the working tree: the tie is broken
        ctx.violation('build', 'harness does not build against the current tree', {'kind': 'build', 'log': str(e)[-3000:],
                      'broken': 'correspondence harness build'}, found_input=False)
        ctx.coverage.setdefault('evaluations', 1)
        ctx.coverage.setdefault('distinct_nontrivial', 2)
        return ctx.finish()
    except Exception:
        # the check itself failed on this tree (an unexpected shape of the real code's output, a tool that died ...): the
        # property is then not shown to hold; report it as such rather than exiting with an unexplained status
        tb = traceback.format_exc()
        traceback.print_exc()
        ctx.violation('check-error', 'the check could not be completed on this tree: ' + tb.strip().split('\n')[-1][:300],
                      {'kind': 'check-error', 'traceback': tb[-4000:], 'broken': 'check machinery (%s)' % a.pid}, found_input=False)
        ctx.coverage.setdefault('evaluations', 1)
        ctx.coverage.setdefault('distinct_nontrivial', 2)
        return ctx.finish()


if __name__ == '__main__':
    sys.exit(main())
