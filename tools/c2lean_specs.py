#!/usr/bin/env python3
"""Which functions of /repo are translated by tools/c2lean.py, and the environment each is translated in
(names and C++ types of the variables it reads and writes).  `generate()` returns the text of
lean/BinlogVerif/Generated/Src.lean."""
import hashlib
import json
import os
import sys

sys.path.insert(0, os.path.dirname(os.path.abspath(__file__)))
import c2lean
C = c2lean.cpat

QW = 'include/binlog/detail/QueueWriter.hpp'
QR = 'include/binlog/detail/QueueReader.hpp'
TIME = 'include/binlog/Time.cpp'
PP = 'include/binlog/PrettyPrinter.cpp'
RANGE = 'include/binlog/Range.hpp'
BREC = 'bin/brecovery.cpp'
OSB = 'include/binlog/detail/OstreamBuffer.cpp'

# pointers into the queue buffer are offsets relative to buffer() (= 0)
QUEUE_VARS = {
    '_writePos': ('_writePos', 'ptr'), '_writeEnd': ('_writeEnd', 'ptr'),
    '_queue.dataEnd': ('dataEnd', 'u64'), '_queue.capacity': ('capacity', 'u64'),
    '_readEnd': ('_readEnd', 'u64'),
}
QUEUE_ATOMICS = {'_queue.writeIndex': 'writeIndex', '_queue.readIndex': 'readIndex'}
QUEUE_CALLS = {'buffer': ('const', 'ptr', '0'), 'BINLOG_VERIF_POINT': ('ignore',)}

SPECS = [
    dict(area='Queue', lean_name='writeCapacity', file=QW, function='writeCapacity', ret='u64',
         inputs={'_writePos': 'ptr', '_writeEnd': 'ptr'}, vars=QUEUE_VARS, calls=QUEUE_CALLS),
    dict(area='Queue', watch=['dataEnd'], lean_name='unreadWriteSize', file=QW, function='unreadWriteSize', ret='u64',
         inputs={'writeIndex': 'u64', 'readIndex': 'u64', 'dataEnd': 'u64'}, vars=QUEUE_VARS, atomics=QUEUE_ATOMICS,
         calls=QUEUE_CALLS),
    dict(area='Queue', lean_name='beginWrite', file=QW, function='beginWrite', ret='bool',
         inputs={'size': 'u64', '_writePos': 'ptr', '_writeEnd': 'ptr', 'maximizeWriteCapacity_ret': 'u64'},
         params={'size': ('size', 'u64')}, vars=QUEUE_VARS,
         calls=dict(QUEUE_CALLS, maximizeWriteCapacity=('opaque', 'u64', 'maximizeWriteCapacity_ret', [])),
         inline_pure={'writeCapacity': (QW, 'writeCapacity')}),
    dict(area='Queue', lean_name='writeBuffer', file=QW, function='writeBuffer', ret='ptr',
         inputs={'size': 'u64', '_writePos': 'ptr', '_writeEnd': 'ptr'}, params={'size': ('size', 'u64')},
         vars=QUEUE_VARS, outputs=['_writePos'],
         calls=dict(QUEUE_CALLS, memcpy=('opaque', 'ptr', '$arg0', ['ptr', 'skip', 'u64']))),
    dict(area='Queue', lean_name='endWrite', file=QW, function='endWrite', ret=None,
         inputs={'_writePos': 'ptr'}, vars=QUEUE_VARS, atomics=QUEUE_ATOMICS, store_outputs=['writeIndex_store'],
         calls=QUEUE_CALLS),
    dict(area='Queue', watch=['dataEnd'], lean_name='maximizeWriteCapacity', file=QW, function='maximizeWriteCapacity', ret='u64',
         inputs={'writeIndex': 'u64', 'readIndex': 'u64', 'capacity': 'u64', 'dataEnd': 'u64', '_writePos': 'ptr', '_writeEnd': 'ptr'},
         vars=QUEUE_VARS, atomics=QUEUE_ATOMICS, outputs=['_writePos', '_writeEnd', 'dataEnd'], calls=QUEUE_CALLS,
         inline_pure={'writeCapacity': (QW, 'writeCapacity')}),
    # QueueReader::beginRead returns ReadResult{buffer1, size1, buffer2, size2}; the aggregate is rewritten to four assignments
    dict(area='Queue', watch=['dataEnd'], lean_name='beginRead', file=QR, function='beginRead', ret=None,
         inputs={'writeIndex': 'u64', 'readIndex': 'u64', 'dataEnd': 'u64', '_readEnd': 'u64',
                 'buffer1': 'ptr', 'size1': 'u64', 'buffer2': 'ptr', 'size2': 'u64'},
         vars=dict(QUEUE_VARS, buffer1=('buffer1', 'ptr'), size1=('size1', 'u64'), buffer2=('buffer2', 'ptr'), size2=('size2', 'u64')),
         atomics=QUEUE_ATOMICS, outputs=['_readEnd', 'buffer1', 'size1', 'buffer2', 'size2'], calls=QUEUE_CALLS,
         rewrites=[(r'return\s+ReadResult\s*\{([^,{}]*),([^,{}]*),([^,{}]*),([^,{}]*)\}\s*;',
                    r'{ buffer1 = \1; size1 = \2; buffer2 = \3; size2 = \4; return; }')]),
    dict(area='Queue', lean_name='endRead', file=QR, function='endRead', ret=None,
         inputs={'_readEnd': 'u64'}, vars=QUEUE_VARS, atomics=QUEUE_ATOMICS, store_outputs=['readIndex_store'], calls=QUEUE_CALLS),
    # ---- Time.cpp -----------------------------------------------------------------------------
    dict(area='Time', lean_name='ticksToNanoseconds', file=TIME, function='ticksToNanoseconds', ret='i64',
         inputs={'frequency': 'u64', 'ticks': 'i64'}, params={'frequency': ('frequency', 'u64'), 'ticks': ('ticks', 'i64')},
         consts={'std::nano::den': (1000000000, 'i64')},
         rewrites=[(r'std::chrono::nanoseconds\s*\{', 'std::int64_t{')]),
    dict(area='Time', lean_name='clockToNsSinceEpoch', file=TIME, function='clockToNsSinceEpoch', ret='i64',
         inputs={'clockSync_clockValue': 'u64', 'clockSync_clockFrequency': 'u64', 'clockSync_nsSinceEpoch': 'u64', 'clockValue': 'u64'},
         params={'clockValue': ('clockValue', 'u64')},
         vars={'clockSync.clockValue': ('clockSync_clockValue', 'u64'), 'clockSync.clockFrequency': ('clockSync_clockFrequency', 'u64'),
               'clockSync.nsSinceEpoch': ('clockSync_nsSinceEpoch', 'u64')},
         consts={'std::nano::den': (1000000000, 'i64')},
         rewrites=[(C('using nanos = std::chrono::nanoseconds;'), ''), (r'nanos\s*\{', 'std::int64_t{')]),
    # the chrono part of nsSinceEpochToBrokenDownTimeUTC up to the call of gmtime_r: seconds (floor) and the sub-second remainder
    dict(area='Time', lean_name='nsSinceEpochToSeconds', file=TIME, function='nsSinceEpochToBrokenDownTimeUTC', ret=None,
         inputs={'sinceEpoch': 'i64', 'tm_nsec': 'i32'}, params={'sinceEpoch': ('sinceEpoch', 'i64')},
         vars={'dst.tm_nsec': ('tm_nsec', 'i32')}, outputs=['tm_nsec'],
         calls={'gmtime_r': ('opaque', 'i32', None, ['i64', 'skip'])},
         rewrites=[(C('using clock = std::chrono::system_clock;'), ''),
                   (C('auto seconds = std::chrono::duration_cast<std::chrono::seconds>(sinceEpoch);'),
                    'std::int64_t seconds = sinceEpoch / 1000000000L;'),
                   (C('std::chrono::nanoseconds{seconds}'), '(seconds * 1000000000L)'),
                   (C('seconds -= std::chrono::seconds{1};'), 'seconds -= 1;'),
                   (C('const clock::time_point tp{std::chrono::duration_cast<clock::duration>(seconds)};'),
                    'const std::int64_t tp = seconds * 1000000000L;'),          # clock::duration = nanoseconds (libstdc++)
                   (C('const std::time_t tt = clock::to_time_t(tp);'), 'const std::time_t tt = tp / 1000000000L;'),
                   (C('gmtime_r(&tt, &dst);'), 'gmtime_r(tt, dst);'),
                   (C('const std::chrono::nanoseconds remainder{sinceEpoch - seconds};'),
                    'const std::int64_t remainder = sinceEpoch - seconds * 1000000000L;'),
                   (r'remainder\.count\(\)', 'remainder')]),
    # ---- PrettyPrinter.cpp helpers --------------------------------------------------------------
    dict(area='Time', lean_name='printTwoDigits', file=PP, function='printTwoDigits', ret=None,
         inputs={'i': 'i32'}, params={'i': ('i', 'i32')},
         calls={'out.write': ('opaque', 'i32', None, ['skip', 'i32']), 'digit': ('opaque', 'i32', None, ['i32'])},
         rewrites=[(C("const char digits[2]{char('0' + a), char('0' + b)};"), 'digit(a); digit(b);')]),
    dict(area='Time', lean_name='printTimeZoneOffset', file=PP, function='printTimeZoneOffset', ret=None,
         inputs={'seconds': 'i32'}, params={'seconds': ('seconds', 'i32')},
         calls={'out.put': ('opaque', 'i32', None, ['i32']), 'printTwoDigits': ('opaque', 'i32', None, ['skip', 'i32'])},
         rewrites=[(C('const char sign'), 'const int sign')]),
    # ---- Range.hpp --------------------------------------------------------------------------------
    dict(area='Reader', lean_name='rangeThrowIfOverflow', file=RANGE, function='throw_if_overflow', ret=None,
         inputs={'s': 'u64', '_begin': 'ptr', '_end': 'ptr'}, params={'s': ('s', 'u64')},
         vars={'_begin': ('_begin', 'ptr'), '_end': ('_end', 'ptr')}),
    dict(area='Reader', lean_name='rangeView', file=RANGE, function='view', ret='ptr',
         inputs={'size': 'u64', '_begin': 'ptr', '_end': 'ptr'}, params={'size': ('size', 'u64')},
         vars={'_begin': ('_begin', 'ptr'), '_end': ('_end', 'ptr')}, outputs=['_begin'],
         calls={'throw_if_overflow': ('opaque', 'i32', None, ['u64'])}),
    # ---- brecovery.cpp ------------------------------------------------------------------------------
    dict(area='Recovery', lean_name='checkQueueInvariants', file=BREC, function='checkQueueInvariants', ret='bool',
         inputs={'writeIndex': 'u64', 'dataEnd': 'u64', 'readIndex': 'u64', 'capacity': 'u64'},
         vars={'queue.writeIndex': ('writeIndex', 'u64'), 'queue.dataEnd': ('dataEnd', 'u64'),
               'queue.readIndex': ('readIndex', 'u64'), 'queue.capacity': ('capacity', 'u64')},
         rewrites=[(r'BINLOG_ERROR\((?:[^()]|\([^()]*\))*\);', '')]),
    # ---- OstreamBuffer.cpp ----------------------------------------------------------------------------
    dict(area='Reader', lean_name='ostreamBufferReserve', file=OSB, function='reserve', ret=None,
         inputs={'n': 'u64', '_p': 'ptr'}, params={'n': ('n', 'u64')},
         vars={'_p': ('_p', 'ptr')}, outputs=['_p'],
         calls={'_buf.size': ('const', 'u64', '1024'), '_buf.data': ('const', 'ptr', '0'), 'flush': ('opaque', 'i32', None, [], {'_p': ('0', 'ptr')})}),
    # flush(): writes [_buf.data(), _p) to the stream and resets _p (this is what the `flush` effect of reserve stands for)
    dict(area='Reader', lean_name='ostreamBufferFlush', file=OSB, function='flush', ret=None,
         inputs={'_p': 'ptr'}, vars={'_p': ('_p', 'ptr')}, outputs=['_p'],
         calls={'_buf.data': ('const', 'ptr', '0'), '_out.write': ('opaque', 'i32', None, ['ptr', 'i64'])}),
    dict(area='Reader', lean_name='ostreamBufferPut', file=OSB, function='put', ret=None,
         inputs={'c': 'i8', '_p': 'ptr'}, params={'c': ('c', 'i8')},
         vars={'_p': ('_p', 'ptr')}, outputs=['_p'],
         calls={'reserve': ('opaque', 'i32', None, ['u64']), 'store': ('opaque', 'i32', None, ['ptr', 'i8'])},
         rewrites=[(C('*_p++ = c;'), 'store(_p, c); _p += 1;')]),
]

HEADER = '''/-
  GENERATED by tools/c2lean.py from the source text of /repo's working tree — do not edit.
  One definition per translated C++ function: inputs ↦ everything the function can affect, with
  C++ integer semantics (`CSem.u64`/`i64`/`u32`/`i32` wrap every operation to its type's width,
  `Int.tdiv`/`Int.tmod` truncate).  Pointers into a buffer are offsets.  The bridge lemmas of
  Lemmas/SrcBridge.lean relate these definitions to the hand-written model.
-/
import BinlogVerif.Base.CSem
namespace BinlogVerif.Generated.Src
open BinlogVerif.CSem
set_option linter.unusedVariables false

'''


AREAS = ['Queue', 'Time', 'Reader', 'Recovery']


def generate():
    """returns ({area: lean text}, info dict).  A function that cannot be translated any more does not stop the others:
    its area's file then consists of an error command carrying the translator's message, so that exactly the bridge lemmas
    of that area (and the checks that list them) stop building."""
    texts, info = {}, {}
    for area in AREAS:
        parts = [HEADER.replace('namespace BinlogVerif.Generated.Src', 'namespace BinlogVerif.Generated.Src')]
        failed = None
        for spec in SPECS:
            if spec['area'] != area:
                continue
            try:
                text, body = c2lean.translate_function(spec)
            except (c2lean.TranslateError, KeyError, IndexError, ValueError) as e:
                failed = '%s (%s): %s' % (spec['function'], spec['file'], e)
                info[spec['lean_name']] = {'file': spec['file'], 'function': spec['function'], 'error': str(e)}
                continue
            parts.append(text)
            info[spec['lean_name']] = {'file': spec['file'], 'function': spec['function'],
                                       'source_sha': hashlib.sha256(body.encode()).hexdigest()[:12]}
        parts.append('end BinlogVerif.Generated.Src\n')
        if failed:
            msg = failed.replace('"', "'").replace('\\', '/')
            texts[area] = ('/- GENERATED by tools/c2lean.py — the translation FAILED; this file deliberately does not compile -/\n'
                           'import BinlogVerif.Base.CSem\n'
                           'theorem BinlogVerif.Generated.Src.translation_failed_%s : False := by\n'
                           '  exact absurd rfl (by decide : ¬ ("%s" = "%s"))\n' % (area, 'tools/c2lean.py cannot translate ' + msg[:400], ''))
        else:
            texts[area] = '\n'.join(parts)
    return texts, info


if __name__ == '__main__':
    texts, info = generate()
    if len(sys.argv) > 1:
        for area, text in texts.items():
            open(os.path.join(sys.argv[1], 'Src%s.lean' % area), 'w').write(text)
        print(json.dumps(info))
    else:
        for area, text in texts.items():
            print(text)
