#!/usr/bin/env python3
"""Run checks against behaviour-preserving refactorings (each must stay quiet, or at most report a broken tie without a failing
input).  usage: benign_eval.py <dir with N.diff> <name prefix> <check ids...>; results in /verif/benign/<prefix>-N/"""
import json, os, shutil, subprocess, sys
def sh(cmd, cwd=None, timeout=3600):
    p = subprocess.run(cmd, shell=True, cwd=cwd, stdout=subprocess.PIPE, stderr=subprocess.STDOUT, timeout=timeout)
    return p.returncode, p.stdout.decode('utf-8', 'replace')
src, prefix, checks = sys.argv[1], sys.argv[2], sys.argv[3:]
for f in sorted(os.listdir(src)):
    if not f.endswith('.diff'):
        continue
    name = '%s-%s' % (prefix, f[:-5])
    dest = os.path.join('/verif/benign', name)
    os.makedirs(dest, exist_ok=True)
    shutil.copy(os.path.join(src, f), os.path.join(dest, 'patch.diff'))
    rc, out = sh('git -C /repo apply %s' % os.path.join(dest, 'patch.diff'))
    if rc != 0:
        print(name, 'does not apply', out[-300:]); continue
    res = {}
    try:
        for c in checks:
            rc, out = sh('./check.py %s --tier quick' % c, cwd='/verif')
            viol = [l for l in out.split('\n') if l.startswith('VIOLATION')]
            why = [l for l in out.split('\n') if 'no longer checks' in l or 'broke' in l][:2]
            res[c] = {'rc': rc, 'violations': viol[:3], 'why': why}
    finally:
        sh('git -C /repo checkout -- .')
        sh('python3 /verif/tools/extract.py')
    meta_p = os.path.join(dest, 'meta.json')
    meta = json.load(open(meta_p)) if os.path.exists(meta_p) else {}
    meta.setdefault('checks', {}).update(res)
    json.dump(meta, open(meta_p, 'w'), indent=1)
    alarms = {c: r['violations'][:1] + r['why'][:1] for c, r in res.items() if r['rc'] != 0}
    print(name, 'QUIET' if not alarms else 'ALARMS %s' % json.dumps(alarms)[:600])
