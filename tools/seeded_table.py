#!/usr/bin/env python3
"""Regenerate the table of section 10 of DESIGN.md from seeded/*/meta.json."""
import json, os, re
HERE = os.path.dirname(os.path.abspath(__file__))
ROOT = os.path.join(HERE, '..')
rows = []
for d in sorted(os.listdir(os.path.join(ROOT, 'seeded'))):
    mp = os.path.join(ROOT, 'seeded', d, 'meta.json')
    if not os.path.exists(mp):
        continue
    m = json.load(open(mp))
    def cell(x):
        return str(x or '').replace('|', '/').replace('\n', ' ').strip()
    det = ', '.join(m.get('detected_by') or []) or '**none**'
    how = []
    for c, r in (m.get('checks_against_change') or {}).items():
        vs = r.get('violations') or []
        found = any('no-failing-input-found' not in v for v in vs)
        how.append('%s: %s' % (c, 'failing input' if found else ('broken tie, no input' if vs else 'silent')))
    rows.append('| `%s` | %s | %s | %s | %s |' % (d, cell(m.get('needs'))[:260], det, '; '.join(how), cell(m.get('history'))[:330]))
table = '| change | needs, to manifest | detected by | how (quick tier) | first run / strengthening |\n|---|---|---|---|---|\n' + '\n'.join(rows)
p = os.path.join(ROOT, 'DESIGN.md')
s = open(p).read()
s = re.sub(r'<!-- SEEDED-TABLE-BEGIN -->.*<!-- SEEDED-TABLE-END -->', '<!-- SEEDED-TABLE-BEGIN -->\n' + table.replace('\\', '\\\\') + '\n<!-- SEEDED-TABLE-END -->', s, flags=re.S)
open(p, 'w').write(s)
print(len(rows), 'rows')
