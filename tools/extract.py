#!/usr/bin/env python3
"""Translator part of the tie: re-reads /repo's sources and regenerates lean/BinlogVerif/Generated/*.lean.

What is extracted (fail-closed: a pattern that is not found raises, which the check reports as a broken tie):
  * every atomic load/store on Queue::writeIndex / readIndex in QueueWriter.hpp / QueueReader.hpp, per function, in
    program order, with its memory order  -> Generated/Orders.lean (the four orders the C01 theorems are
    parameterised by, and the access sequence, compared by `decide` with what the model's steps perform);
  * Session: which methods take the lock_guard as their first statement; the order of `use_count()` vs `beginRead()`
    in consume; the memory orders of _minSeverity                               -> Generated/Session.lean
  * constants: entry tags, special bit, magic numbers, recursion limit, repeat threshold, severities -> Generated/Consts.lean
"""
import os
import re
import sys

REPO = os.environ.get('VERIF_REPO', '/repo')
OUT = os.path.join(os.path.dirname(os.path.abspath(__file__)), '..', 'lean', 'BinlogVerif', 'Generated')


sys.path.insert(0, os.path.dirname(os.path.abspath(__file__)))
import cxxcanon


class ExtractError(Exception):
    pass


def read(rel):
    with open(os.path.join(REPO, rel)) as f:
        return f.read()


def strip_comments(src):
    """comments removed AND formatting removed (tools/cxxcanon.py): nothing extracted below depends on white space, line
    breaks, brace placement or `T& x` / `T &x`; patterns are written for that canonical text"""
    return cxxcanon.canon_source(src)


def functions(src):
    """very small C++ function splitter: yields (name, body) for top-level member function definitions"""
    out = []
    for m in re.finditer(r'\b([A-Za-z_~][A-Za-z_0-9]*)\s*\(([^;{}()]|\([^()]*\))*\)\s*(const)?\s*(noexcept)?\s*(?::[^{;]*)?\{', src):
        name = m.group(1)
        if name in ('if', 'for', 'while', 'switch', 'catch', 'return', 'sizeof', 'assert', 'defined'):
            continue
        i = m.end()
        depth = 1
        while i < len(src) and depth:
            if src[i] == '{':
                depth += 1
            elif src[i] == '}':
                depth -= 1
            i += 1
        out.append((name, src[m.end():i - 1]))
    return out


def atomic_accesses(rel, cls):
    src = strip_comments(read(rel))
    res = []
    for name, body in functions(src):
        for m in re.finditer(r'(writeIndex|readIndex)\s*\.\s*(load|store)\s*\(([^;]*?)std::memory_order_(\w+)\s*\)', body):
            res.append(('%s::%s' % (cls, name), m.group(1), m.group(2), m.group(4)))
        # implicit (seq_cst) accesses would be a change of the access pattern: report them too
        for m in re.finditer(r'(writeIndex|readIndex)\s*(=[^=]|\+\+|--|\.exchange|\.fetch_|\.compare_exchange)', body):
            res.append(('%s::%s' % (cls, name), m.group(1), 'rmw-or-assign', 'seq_cst'))
        for m in re.finditer(r'(writeIndex|readIndex)\s*\.\s*(load|store)\s*\(\s*([^,)]*)\)', body):
            if 'memory_order' not in m.group(0):
                res.append(('%s::%s' % (cls, name), m.group(1), m.group(2), 'seq_cst'))
    return res


def guards_at(body, pos):
    """the conditions under which the text at `pos` of a function body is executed, as far as they are visible syntactically:
    the enclosing if/else heads, the early returns (`if (c) { … return … }` at an enclosing level that ends before pos) and
    a ternary condition on the same statement.  Conditions are normalised by removing white space."""
    def norm(c):
        return re.sub(r'\s+', '', c)
    res = []
    # enclosing blocks and earlier siblings: walk the body with a stack of open blocks
    stack = [[]]          # per open block: conditions of early-return ifs closed so far inside it
    heads = []            # head of each open block ('if:cond', 'else:cond', '')
    starts = []           # where each open block starts
    i = 0
    last_if = {}          # depth -> condition of the most recent if at that depth (for `else`)
    tokens = re.compile(r'\bif\s*\(|\belse\b|\{|\}')
    pending = None
    while i < pos:
        m = tokens.search(body, i)
        if not m or m.start() >= pos:
            break
        t = m.group(0)
        if t.startswith('if'):
            j, depth = m.end(), 1
            while j < len(body) and depth:
                depth += body[j] == '('
                depth -= body[j] == ')'
                j += 1
            cond = norm(body[m.end():j - 1])
            if m.end() <= pos < j:
                break              # pos is inside the condition itself: it is evaluated unconditionally at this level
            pending = 'if:' + cond
            last_if[len(heads)] = cond
            i = j
        elif t == 'else':
            pending = 'else:' + last_if.get(len(heads), '?')
            i = m.end()
        elif t == '{':
            heads.append(pending or '')
            starts.append(m.start())
            stack.append([])
            pending = None
            i = m.end()
        else:
            h = heads.pop() if heads else ''
            stack.pop()
            blk_start = starts.pop() if starts else 0
            if h.startswith('if:') and re.search(r'\breturn\b', body[blk_start:m.start()]):
                stack[-1].append('!(%s)' % h[3:])
            pending = None
            i = m.end()
    for h in heads:
        if h.startswith('if:'):
            res.append(h[3:])
        elif h.startswith('else:'):
            res.append('!(%s)' % h[5:])
    for lvl in stack:
        res += lvl
    # ternary on the same statement
    st_start = max(body.rfind(';', 0, pos), body.rfind('{', 0, pos), body.rfind('}', 0, pos)) + 1
    stmt = body[st_start:pos]
    m = re.search(r'\(([^()]*)\)\s*\?', stmt)
    if m:
        res.append(('!(%s)' if ':' in stmt[m.end():] else '%s') % norm(m.group(1)))
    return res


def plain_accesses(rel, cls, var):
    src = strip_comments(read(rel))
    res = []
    for name, body in functions(src):
        for m in re.finditer(r'\b%s\b' % var, body):
            kind = 'write' if re.match(r'\s*=[^=]', body[m.end():]) else 'read'
            res.append(('%s::%s' % (cls, name), var, kind, ' && '.join(guards_at(body, m.start())) or 'always'))
    return res


def lean_str(s):
    return '"' + s.replace('\\', '\\\\').replace('"', '\\"') + '"'


def gen_orders():
    acc = atomic_accesses('include/binlog/detail/QueueWriter.hpp', 'QueueWriter') + \
        atomic_accesses('include/binlog/detail/QueueReader.hpp', 'QueueReader')

    def order_of(fn, var, op):
        xs = [a for a in acc if a[0] == fn and a[1] == var and a[2] == op]
        if len(xs) != 1:
            raise ExtractError('expected exactly one %s of %s in %s, found %r' % (op, var, fn, xs))
        return xs[0][3]
    def mo(o):
        return {'relaxed': '.relaxed', 'acquire': '.acquire', 'release': '.release'}.get(o)
    o = {'wStore': order_of('QueueWriter::endWrite', 'writeIndex', 'store'),
         'wLoadC': order_of('QueueReader::beginRead', 'writeIndex', 'load'),
         'rStore': order_of('QueueReader::endRead', 'readIndex', 'store'),
         'rLoadP': order_of('QueueWriter::maximizeWriteCapacity', 'readIndex', 'load')}
    lines = ['import BinlogVerif.Conc.QueueAccess', 'import BinlogVerif.Props.C01',
             '/- GENERATED by tools/extract.py from /repo/include/binlog/detail/Queue{Writer,Reader}.hpp — do not edit -/',
             'namespace BinlogVerif.Generated', 'open BinlogVerif', '']
    if all(mo(v) for v in o.values()):
        lines.append('/-- the memory orders the code uses on the two indices -/')
        lines.append('def queueOrders : Q.Orders := { wStore := %s, wLoadC := %s, rStore := %s, rLoadP := %s }' % (
            mo(o['wStore']), mo(o['wLoadC']), mo(o['rStore']), mo(o['rLoadP'])))
        lines.append('')
        lines.append('/-- side condition of the C01 theorems, discharged for the extracted orders -/')
        lines.append('theorem queueOrders_sufficient : queueOrders.Sufficient := by decide')
        lines.append('')
        lines.append('/-- the C01 theorems instantiated at the orders of the code -/')
        lines.append('theorem code_race_free (cap : Nat) (tr : List Q.Op) (s : Q.St) (run : Q.exec queueOrders (Q.init cap) tr = some s) :')
        lines.append('    s.race = none := C01.c01_race_free queueOrders queueOrders_sufficient cap tr s run')
        lines.append('theorem code_fifo (cap : Nat) (tr : List Q.Op) (s : Q.St) (run : Q.exec queueOrders (Q.init cap) tr = some s) :')
        lines.append('    s.delivered.flatten <+: s.commits.flatten := (C01.c01_fifo_exactly_once queueOrders queueOrders_sufficient cap tr s run).1')
    else:
        # stronger-than-needed orders (acq_rel / seq_cst) are fine for the theorems but are a change of the tie
        lines.append('-- extracted orders are outside {relaxed, acquire, release}: %r' % o)
        lines.append('theorem queueOrders_sufficient : False := by decide')
    lines.append('')
    lines.append('/-- every atomic access of the queue, per function, in program order: (function, variable, operation, order) -/')
    lines.append('def queueAccesses : List (String × String × String × String) := [')
    lines.append(',\n'.join('  (%s, %s, %s, %s)' % tuple(lean_str(x) for x in a) for a in acc))
    lines.append(']')
    lines.append('')
    lines.append('/-- the access sequence of the code is the one the model\'s steps perform -/')
    lines.append('theorem queueAccesses_match : queueAccesses = Q.modelAccesses := by decide')
    lines.append('')
    plain = plain_accesses('include/binlog/detail/QueueWriter.hpp', 'QueueWriter', 'dataEnd') + \
        plain_accesses('include/binlog/detail/QueueReader.hpp', 'QueueReader', 'dataEnd')
    sites = []
    for a in plain:
        if a[:3] not in sites:
            sites.append(a[:3])
    lines.append('/-- which functions access the NON-ATOMIC `dataEnd`, and how.  The CONDITIONS under which they do are not matched as')
    lines.append('    text: they are computed from the translated source (`Src.*.dataEnd_read/_written`, Generated/SrcQueue.lean) and proved')
    lines.append('    equal to the model\'s in Lemmas/SrcBridgeQueue.lean (`beginRead_dataEnd`, `unreadWriteSize_dataEnd`,')
    lines.append('    `maximizeWriteCapacity_dataEnd`), so renaming a local or inverting a branch changes nothing. -/')
    lines.append('def queuePlainAccesses : List (String × String × String) := [')
    lines.append(',\n'.join('  (%s, %s, %s)' % tuple(lean_str(x) for x in a) for a in sites))
    lines.append(']')
    lines.append('')
    lines.append('/-- only the functions the model knows touch `dataEnd`: the consumer in `beginRead` (read), the producer in `unreadWriteSize` (read) and `maximizeWriteCapacity` (write) -/')
    lines.append('theorem queuePlainAccesses_match : queuePlainAccesses = Q.modelPlainAccesses := by decide')
    lines.append('')
    lines.append('end BinlogVerif.Generated')
    return '\n'.join(lines) + '\n', {'orders': o, 'accesses': acc, 'plain': plain}


def gen_consts():
    entries = strip_comments(read('include/binlog/Entries.hpp'))
    tags = {}
    for cls in ('EventSource', 'WriterProp', 'ClockSync'):
        m = re.search(r'struct\s+%s\s*\{.*?Tag\s*=\s*std::uint64_t\(\s*-\s*(\d+)\s*\)' % cls, entries, flags=re.S)
        if not m:
            raise ExtractError('Tag of %s not found' % cls)
        tags[cls] = int(m.group(1))
    es = strip_comments(read('include/binlog/EventStream.cpp'))
    m = re.search(r'tag\s*&\s*\(\s*std::uint64_t\(1\)\s*<<\s*(\d+)\s*\)', es)
    if not m:
        raise ExtractError('special-bit test not found in EventStream.cpp')
    special_bit = int(m.group(1))
    visit = strip_comments(read('include/mserialize/visit.hpp'))
    m = re.search(r'visit_impl\(\s*tag\s*,\s*tag\s*,\s*visitor\s*,\s*istream\s*,\s*(\d+)\s*\)', visit)
    if not m:
        raise ExtractError('recursion limit not found in visit.hpp')
    max_rec = int(m.group(1))
    vimpl = strip_comments(read('include/mserialize/detail/Visit.hpp'))
    m = re.search(r'size\s*>\s*(\d+)\s*&&\s*singular', vimpl)
    if not m:
        raise ExtractError('repeat threshold not found in Visit.hpp')
    threshold = int(m.group(1))
    sev = strip_comments(read('include/binlog/Severity.hpp'))
    sevs = [(n, int(a) << int(b)) for n, a, b in re.findall(r'(\w+)\s*=\s*(\d+)\s*<<\s*(\d+)', sev)]
    if len(sevs) != 7:
        raise ExtractError('expected 7 severities, found %r' % sevs)
    sess = strip_comments(read('include/binlog/Session.hpp'))
    magics = re.findall(r'0x(FE21[0-9A-F]+)', sess)
    vec = strip_comments(read('include/binlog/detail/VectorOutputStream.hpp'))
    if len(set(magics)) != 2:
        raise ExtractError('expected two magic numbers in Session.hpp, found %r' % magics)
    lines = ['import BinlogVerif.Reader.Entries', 'import BinlogVerif.Mser.Visit',
             '/- GENERATED by tools/extract.py — do not edit -/', 'namespace BinlogVerif.Generated', 'open BinlogVerif', '']
    lines.append('theorem tag_eventSource : tagEventSource = 2^64 - %d := by decide' % tags['EventSource'])
    lines.append('theorem tag_writerProp : tagWriterProp = 2^64 - %d := by decide' % tags['WriterProp'])
    lines.append('theorem tag_clockSync : tagClockSync = 2^64 - %d := by decide' % tags['ClockSync'])
    lines.append('theorem special_bit : ∀ t, isSpecial t = decide (t ≥ 2^%d) := by intro t; rfl' % special_bit)
    lines.append('theorem max_recursion : ∀ {σ} (v : Visit.Visitor σ) tag st input, Visit.visit v tag st input = Visit.visitImpl v tag %d tag st input := by intros; rfl' % max_rec)
    lines.append('theorem repeat_threshold : Visit.repeatThreshold = %d := by decide' % threshold)
    lines.append('def severities : List (String × Nat) := [%s]' % ', '.join('(%s, %d)' % (lean_str(n), v) for n, v in sevs))
    lines.append('def channelMagic : Nat := 0x%s' % [m for m in magics if m.startswith('FE213F')][0])
    lines.append('def metadataMagic : Nat := 0x%s' % [m for m in magics if m.startswith('FE214F')][0])
    lines.append('')
    lines.append('end BinlogVerif.Generated')
    return '\n'.join(lines) + '\n', {'tags': tags, 'special_bit': special_bit, 'max_recursion': max_rec, 'repeat_threshold': threshold,
                                      'severities': sevs, 'magics': sorted(set(magics))}


def method_body(src, qualified):
    """body of `Ret Class::name(...) {` (first definition)"""
    m = re.search(r'\b' + re.escape(qualified) + r'\s*\(([^;{}()]|\([^()]*\))*\)\s*(const)?\s*(noexcept)?\s*\{', src)
    if not m:
        raise ExtractError('definition of %s not found' % qualified)
    i = m.end()
    depth = 1
    while i < len(src) and depth:
        depth += {'{': 1, '}': -1}.get(src[i], 0)
        i += 1
    return src[m.end():i - 1]


SESSION_KNOWN = ('createChannel', 'setChannelWriterId', 'setChannelWriterName', 'addEventSource', 'setClockSync', 'consume',
                 'reconsumeMetadata', 'minSeverity', 'setMinSeverity', 'consumeSpecialEntry')
SESSION_OTHER = ('Session', 'Channel::Channel', 'Channel::~Channel', 'Channel::queue', 'appendSpecialEntry')


def session_helpers(sess):
    """member functions of Session defined in the header that are neither modelled methods nor constructors: private helpers.
    A helper must be called from a modelled method (it is then inlined at the call, so that extracting a few lines of `consume`
    into a helper changes nothing); a function nobody modelled calls is a new entry point the model does not know."""
    names = sorted(set(re.findall(r'\bSession::(~?\w+(?:::~?\w+)?)\s*\(', sess)))
    helpers = [n for n in names if n not in SESSION_KNOWN and n not in SESSION_OTHER]
    called = set()
    frontier = list(SESSION_KNOWN)
    while frontier:
        raw = method_body(sess, 'Session::' + frontier.pop())
        for h in helpers:
            if h not in called and re.search(r'(?<![\w:.>])%s\s*\(' % re.escape(h), raw):
                called.add(h)
                frontier.append(h)
    unknown = [h for h in helpers if h not in called]
    if unknown:
        raise ExtractError('Session has member functions the model does not know and no modelled method calls: %s' % unknown)
    return helpers


def session_method_body(sess, name, helpers=None, depth=0):
    body = method_body(sess, 'Session::' + name)
    if helpers is None:
        helpers = session_helpers(sess)
    if depth > 3:
        return body
    for h in helpers:
        if h == name:
            continue
        pat = re.compile(r'(?<![\w:.>])%s\s*\((?:[^;{}()]|\([^()]*\))*\)\s*;' % re.escape(h))
        if pat.search(body):
            hb = session_method_body(sess, h, [x for x in helpers if x != h], depth + 1)
            body = pat.sub(lambda m: '{' + hb + '}', body)
    return body


def gen_session():
    sess = strip_comments(read('include/binlog/Session.hpp'))
    locked = []
    for name in ('createChannel', 'setChannelWriterId', 'setChannelWriterName', 'addEventSource', 'setClockSync', 'consume',
                 'reconsumeMetadata', 'minSeverity', 'setMinSeverity', 'consumeSpecialEntry'):
        body = session_method_body(sess, name)
        first = body.strip().split(';')[0]
        if re.match(r'std::lock_guard<std::mutex>\s*\w+\(_mutex\)', first.strip()):
            locked.append(name)
    consume = session_method_body(sess, 'consume')
    iu = consume.find('use_count()')
    ir = consume.find('beginRead()')
    if iu < 0 or ir < 0:
        raise ExtractError('use_count()/beginRead() not found in Session::consume')
    closed_before_read = iu < ir
    fence = re.search(r'if\s*\(\s*isClosed\s*\)\s*\{[^{}]*std::atomic_thread_fence\(\s*std::memory_order_(acquire|acq_rel|seq_cst)\s*\)', consume)
    fence_ok = bool(fence) and iu < fence.start() < ir
    # order of the writes inside consume: clock sync, sources, channel loop
    ics, isrc, iloop = consume.find('_clockSync.data()'), consume.find('_sources.data()'), consume.find('for(std::shared_ptr<Channel>&')
    meta_first = 0 <= ics < isrc < iloop
    erase_ordered = 'std::remove_if' in consume and 'swap' not in consume
    mo = re.search(r'_minSeverity\.load\(std::memory_order_(\w+)\)', sess)
    ms = re.search(r'_minSeverity\.store\([^,]+,\s*std::memory_order_(\w+)\)', sess)
    if not mo or not ms:
        raise ExtractError('_minSeverity load/store not found')
    sw = strip_comments(read('include/binlog/SessionWriter.hpp'))
    rc = method_body(sw, 'SessionWriter::replaceChannel')
    create_then_assign = bool(re.search(r'_channel\s*=\s*_session->createChannel\(', rc))
    cap_rule = bool(re.search(r'\(std::max\)\(_qw\.capacity\(\),\s*2\s*\*\s*minQueueCapacity\)', rc))
    b = lambda v: 'true' if v else 'false'
    lines = ['import BinlogVerif.Props.C02', 'import BinlogVerif.Conc.SessionAccess',
             '/- GENERATED by tools/extract.py from /repo/include/binlog/Session.hpp, SessionWriter.hpp — do not edit -/',
             'namespace BinlogVerif.Generated', 'open BinlogVerif', '',
             '/-- Session methods whose first statement takes `std::lock_guard<std::mutex>` on `_mutex` -/',
             'def lockedMethods : List String := [%s]' % ', '.join(lean_str(x) for x in locked),
             'theorem lockedMethods_match : lockedMethods = Sess.modelLockedMethods := by decide', '',
             '/-- in `consume`: the closed state is sampled before `beginRead`, and observing it is followed by an acquire fence -/',
             'def closedSampledBeforeRead : Bool := %s' % b(closed_before_read),
             'def closeSyncFence : Bool := %s' % b(fence_ok),
             'def metadataWrittenFirst : Bool := %s' % b(meta_first),
             'def eraseKeepsOrder : Bool := %s' % b(erase_ordered),
             'def replaceCreatesBeforeDrop : Bool := %s' % b(create_then_assign),
             'def replaceCapacityRule : Bool := %s' % b(cap_rule),
             'def minSeverityOrders : String × String := (%s, %s)' % (lean_str(mo.group(1)), lean_str(ms.group(1))),
             '',
             '/-- the structural facts the L1 session model relies on (each is what makes one model assumption true of the code) -/',
             'theorem session_structure : closedSampledBeforeRead = true ∧ closeSyncFence = true ∧ metadataWrittenFirst = true ∧',
             '    eraseKeepsOrder = true ∧ replaceCreatesBeforeDrop = true ∧ replaceCapacityRule = true ∧',
             '    minSeverityOrders = ("acquire", "release") := by decide', '',
             'end BinlogVerif.Generated']
    return '\n'.join(lines) + '\n', {'locked': locked, 'closed_before_read': closed_before_read, 'close_sync_fence': fence_ok,
                                       'metadata_first': meta_first, 'erase_keeps_order': erase_ordered,
                                       'replace_creates_before_drop': create_then_assign, 'min_severity': (mo.group(1), ms.group(1))}


def gen_macros():
    """expand each of the 24 log macros with the preprocessor and check the shape of the expansion"""
    import subprocess, tempfile
    sevs = ['TRACE', 'DEBUG', 'INFO', 'WARN', 'ERROR', 'CRITICAL']
    sevval = {'trace': 32, 'debug': 64, 'info': 128, 'warning': 256, 'error': 512, 'critical': 1024}
    lines = ['#include <binlog/binlog.hpp>', 'int bump();', 'void probe(binlog::SessionWriter& wr) {']
    names = []
    for sv in sevs:
        for suffix, args in (('', '"m {}", bump()'), ('_W', 'wr, "m {}", bump()'), ('_C', 'cat, "m {}", bump()'), ('_WC', 'wr, cat, "m {}", bump()')):
            n = 'BINLOG_%s%s' % (sv, suffix)
            names.append(n)
            lines.append('VERIF_MARK_%s %s(%s); VERIF_END' % (n, n, args))
    lines.append('}')
    with tempfile.NamedTemporaryFile('w', suffix='.cpp', delete=False) as f:
        f.write('\n'.join(lines))
        path = f.name
    p = subprocess.run(['g++', '-std=c++17', '-E', '-P', '-I' + os.path.join(REPO, 'include'), path], stdout=subprocess.PIPE, stderr=subprocess.PIPE)
    os.remove(path)
    if p.returncode != 0:
        raise ExtractError('preprocessing the macro probe failed: ' + p.stderr.decode()[-500:])
    text = p.stdout.decode()
    table = []
    for n in names:
        m = re.search(r'VERIF_MARK_%s\b(.*?)VERIF_END' % n, text, flags=re.S)
        if not m:
            raise ExtractError('expansion of %s not found' % n)
        e = cxxcanon.canon_code(m.group(1))
        g = re.search(r'do\{if\(binlog::Severity::(\w+)>=(.*?)\.session\(\)\.minSeverity\(\)\)\{(.*)\}\}while\(false\)', e)
        if not g:
            raise ExtractError('%s does not expand to `do { if (severity >= writer.session().minSeverity()) { … } } while (false)`: %s' % (n, e[:300]))
        sev, writer, body = g.group(1), g.group(2).strip(), g.group(3)
        outside = e[:g.start(3)] + e[g.end(3):]
        if 'bump()' in outside or 'addEventSource' in outside or 'addEvent' in outside.replace('minSeverity', ''):
            raise ExtractError('%s: an argument or a source/event creation is outside the severity guard' % n)
        if body.count('bump()') < 1 or 'addEventSource' not in body or 'addEventIgnoreFirst' not in body:
            raise ExtractError('%s: the guarded block does not contain the source registration and the event' % n)
        cat = re.search(r'binlog::EventSource\{0,binlog::Severity::\w+,"(\w+)"', body)
        table.append((n, sevval.get(sev, 0), writer == 'wr', cat.group(1) if cat else '?'))
    lean = ['import BinlogVerif.Props.C19', '/- GENERATED by tools/extract.py from the preprocessor expansion of the 24 log macros — do not edit -/',
            'namespace BinlogVerif.Generated', 'open BinlogVerif', '',
            '/-- (macro, severity value, uses the writer argument, category) — each expansion was checked to be',
            '    `do { if (severity >= writer.session().minSeverity()) { register source; add event } } while (false)`',
            '    with every argument expression inside the guarded block -/',
            'def macroExpansions : List (String × Nat × Bool × String) := [',
            ',\n'.join('  (%s, %d, %s, %s)' % (lean_str(a), b, 'true' if c else 'false', lean_str(d)) for a, b, c, d in table), ']', '',
            'theorem macros_match : macroExpansions.map (fun m => (m.1, m.2.1, m.2.2.1)) = Macro.macroTable.map (fun m => (m.1, m.2.1, m.2.2.1)) := by decide',
            'theorem macros_category : macroExpansions.map (fun m => m.2.2.2 == "main") = Macro.macroTable.map (fun m => !m.2.2.2) := by decide',
            '', 'end BinlogVerif.Generated']
    return '\n'.join(lean) + '\n', {'macros': table}


def gen_locks():
    """access table of the shared state of Session / Session::Channel: for every method, which members it touches, whether the
    method holds the session mutex for its whole body, and whether only the owning writer thread executes it"""
    sess = strip_comments(read('include/binlog/Session.hpp'))
    sw = strip_comments(read('include/binlog/SessionWriter.hpp'))
    members = ['_channels', '_clockSync', '_sources', '_sourcesConsumePos', '_nextSourceId', '_totalConsumedBytes',
               '_consumeClockSync', '_specialEntryBuffer']
    # members declared in the class must be exactly the known ones (+ the mutex and the atomic): a new member is a broken tie
    i0 = sess.find('std::mutex _mutex;')
    if i0 < 0:
        raise ExtractError('data member section of Session not found')
    # up to the end of the class: the first `}` at depth 0 counted from the mutex member
    i, depth = i0, 0
    while i < len(sess):
        if sess[i] == '{':
            depth += 1
        elif sess[i] == '}':
            if depth == 0:
                break
            depth -= 1
        i += 1
    section = sess[i0:i]
    declared = set(re.findall(r'\b(_[A-Za-z]+)\b\s*(?:=|;|\{)', section))
    expected = set(members) | {'_mutex', '_minSeverity'}
    if declared != expected:
        raise ExtractError('data members of Session changed: %s' % sorted(declared ^ expected))
    if not re.search(r'std::atomic<Severity>\s*_minSeverity', sess):
        raise ExtractError('_minSeverity is no longer std::atomic<Severity>')
    rows = []
    locked = {}
    for name in ('createChannel', 'setChannelWriterId', 'setChannelWriterName', 'addEventSource', 'setClockSync', 'consume',
                 'reconsumeMetadata', 'consumeSpecialEntry', 'minSeverity', 'setMinSeverity'):
        body = session_method_body(sess, name)
        first = body.strip().split(';')[0].strip()
        is_locked = bool(re.match(r'std::lock_guard<std::mutex>\s*\w+\(_mutex\)', first))
        # consumeSpecialEntry is private and only called from consume (checked), hence under the lock
        if name == 'consumeSpecialEntry':
            callers = [n for n in ('createChannel', 'setChannelWriterId', 'setChannelWriterName', 'addEventSource', 'setClockSync',
                                   'consume', 'reconsumeMetadata', 'minSeverity', 'setMinSeverity')
                       if 'consumeSpecialEntry(' in session_method_body(sess, n)]
            is_locked = callers == ['consume']
        locked[name] = is_locked
        for m in members:
            if re.search(r'(?<![A-Za-z0-9_])' + re.escape(m) + r'\b', body):
                rows.append(('Session::' + name, m, True, is_locked, False))
        for f in re.findall(r'writerProp\.(\w+)\s*=', body):
            rows.append(('Session::' + name, 'writerProp.' + f, True, is_locked, f in ('id', 'name')))
        if re.search(r'consumeSpecialEntry\(\s*ch\.writerProp', body):
            for f in ('id', 'name', 'batchSize'):
                rows.append(('Session::' + name, 'writerProp.' + f, False, is_locked, False))
    # the writer thread: setId/setName go through the locked session methods (owner only); replaceChannel reads id/name lock-free
    for name, target in (('setId', 'setChannelWriterId'), ('setName', 'setChannelWriterName')):
        body = method_body(sw, 'SessionWriter::' + name)
        if ('_session->%s(' % target) not in body:
            raise ExtractError('SessionWriter::%s no longer forwards to Session::%s' % (name, target))
    rc = method_body(sw, 'SessionWriter::replaceChannel')
    for f in sorted(set(re.findall(r'_channel->writerProp\.(\w+)', rc))):
        rows.append(('SessionWriter::replaceChannel', 'writerProp.' + f, False, False, True))
    if re.search(r'_channel->writerProp\s*[^.]', rc):
        raise ExtractError('replaceChannel accesses the whole writerProp (incl. batchSize) without the lock')
    b = lambda v: 'true' if v else 'false'
    lean = ['import BinlogVerif.Props.C10', '/- GENERATED by tools/extract.py from Session.hpp / SessionWriter.hpp — do not edit -/',
            'namespace BinlogVerif.Generated', 'open BinlogVerif', '',
            '/-- (method, member, write?, whole method under `Session::_mutex`?, executed only by the owning writer thread?)',
            '    Conservative: every access of a member inside a method is listed as a write unless it is syntactically a read of',
            '    `writerProp`.  Constructors/destructors (object not yet / no longer shared) and the atomic `_minSeverity` are not listed. -/',
            'def sessionAccessTable : List C10.Access := [',
            ',\n'.join('  { method := %s, loc := %s, write := %s, underLock := %s, byOwnerOnly := %s }' % (lean_str(a), lean_str(bb), b(c), b(d), b(e))
                       for a, bb, c, d, e in rows), ']', '',
            '/-- the lock / ownership discipline holds for the extracted table: premise of `C10.c10_table_sound` -/',
            'theorem session_disciplined : C10.Disciplined sessionAccessTable = true := by decide', '',
            'end BinlogVerif.Generated']
    return '\n'.join(lean) + '\n', {'rows': rows}


def write_if_changed(path, text):
    old = open(path).read() if os.path.exists(path) else None
    if old != text:
        with open(path, 'w') as f:
            f.write(text)
        return True
    return False


def main():
    os.makedirs(OUT, exist_ok=True)
    info = {}
    changed = []
    failed = {}
    for name, gen in (('Orders.lean', gen_orders), ('Consts.lean', gen_consts), ('Session.lean', gen_session), ('Macros.lean', gen_macros), ('Locks.lean', gen_locks)):
        try:
            text, meta = gen()
        except ExtractError as e:
            # the extractor no longer recognises what this file is generated from: the file becomes an error carrying the message,
            # so that exactly the obligations that rest on it (and the checks that list them) stop building
            msg = str(e).replace('"', "'").replace('\\', '/').replace('\n', ' ')[:500]
            text = ('/- GENERATED by tools/extract.py — the extraction FAILED; this file deliberately does not compile -/\n'
                    'theorem BinlogVerif.Generated.extraction_failed_%s : False := by\n'
                    '  exact absurd rfl (by decide : ¬ ("tools/extract.py: %s" = ""))\n' % (name.split('.')[0], msg))
            meta = {'error': str(e)}
            failed[name] = str(e)
        info[name] = meta
        if write_if_changed(os.path.join(OUT, name), text):
            changed.append(name)
    info['failed'] = failed
    # the source-to-Lean translation of the integer kernels (tools/c2lean.py): one file per area
    sys.path.insert(0, os.path.dirname(os.path.abspath(__file__)))
    import c2lean_specs
    texts, srcinfo = c2lean_specs.generate()
    for area, text in texts.items():
        if write_if_changed(os.path.join(OUT, 'Src%s.lean' % area), text):
            changed.append('Src%s.lean' % area)
    info['Src'] = srcinfo
    import json
    print(json.dumps({'changed': changed, 'info': info}, default=str))
    return 0


if __name__ == '__main__':
    try:
        sys.exit(main())
    except ExtractError as e:
        print('EXTRACT-ERROR: %s' % e)
        sys.exit(3)
