"""Seeded generators of binlog byte streams (entries, logs, mutations).  All randomness comes from
the random.Random instance passed in, so a case replays exactly from (seed, index)."""
import struct

TAG_SOURCE = (1 << 64) - 1
TAG_WP = (1 << 64) - 2
TAG_CS = (1 << 64) - 3
SEVERITIES = [32, 64, 128, 256, 512, 1024, 32768]


def u8(v): return struct.pack('<B', v & 0xFF)
def u16(v): return struct.pack('<H', v & 0xFFFF)
def u32(v): return struct.pack('<I', v & 0xFFFFFFFF)
def u64(v): return struct.pack('<Q', v & 0xFFFFFFFFFFFFFFFF)
def bstr(b): return u32(len(b)) + b


def source_payload(id, severity=128, category=b'', function=b'', file=b'', line=0, fmt=b'', tags=b''):
    return (u64(TAG_SOURCE) + u64(id) + u16(severity) + bstr(category) + bstr(function) + bstr(file)
            + u64(line) + bstr(fmt) + bstr(tags))


def wp_payload(id=0, name=b'', batch=0):
    return u64(TAG_WP) + u64(id) + bstr(name) + u64(batch)


def cs_payload(clock=0, freq=0, ns=0, tz=0, tzname=b''):
    return u64(TAG_CS) + u64(clock) + u64(freq) + u64(ns) + u32(tz) + bstr(tzname)


def event_payload(source_id, clock, args=b''):
    return u64(source_id) + u64(clock) + args


def frame(payload): return u32(len(payload)) + payload
def frames(payloads): return b''.join(frame(p) for p in payloads)


def rand_bytes(rng, maxlen=6, alphabet=None):
    n = rng.choice([0, 0, 1, 2, 3, maxlen])
    if alphabet is None:
        return bytes(rng.randrange(256) for _ in range(n))
    return bytes(rng.choice(alphabet) for _ in range(n))


def rand_id(rng, pool):
    """ids: small, adjacent, sparse, huge, descending, repeated"""
    k = rng.randrange(10)
    if pool and k < 4:
        return rng.choice(pool)
    if pool and k < 6:
        return (rng.choice(pool) + rng.choice([1, -1, 2])) % (1 << 63)
    if k < 8:
        return rng.randrange(0, 12)
    if k == 8:
        return rng.randrange(1 << 40, 1 << 63)
    return rng.choice([0, 1, (1 << 63) - 1, (1 << 32), (1 << 32) - 1, 1 << 62])


def rand_source(rng, id):
    return source_payload(id, rng.choice(SEVERITIES + [0, 7, 65535]), rand_bytes(rng, 5, b'abcXY'),
                          rand_bytes(rng, 6, b'fgmain_:'), rand_bytes(rng, 8, b'/a.cpp\\'),
                          rng.choice([0, 1, 2, 77, 1 << 33, (1 << 64) - 1]), rand_bytes(rng, 6, b'x{} y'),
                          rand_bytes(rng, 3, b'iIcl['))


def rand_log(rng, n_entries=None, invalid_rate=0.0, unknown_rate=0.0, max_args=6, kinds=None):
    """A list of payloads: sources (with re-definitions), writer props, clock syncs, events.
    With invalid_rate > 0 also invalid entries of the kinds C14 lists."""
    if n_entries is None:
        n_entries = rng.choice([0, 1, 2, 3, 5, 8, 13, 21])
    pool = []
    out = []
    bad = []          # unknown source ids used so far: they come back (the same unknown id twice, an unknown id defined later)
    for _ in range(n_entries):
        r = rng.random()
        if out and rng.random() < 0.06:
            j = rng.randrange(max(0, len(out) - 3), len(out))          # one of the last entries again, whatever it was
            out.append(out[j])
            if kinds is not None:
                kd = kinds[j]
                if kd == 'invalid' and len(out[j]) >= 16 and int.from_bytes(out[j][:8], 'little') in pool:
                    kd = 'ok'             # an event whose id was unknown then and is defined by now
                kinds.append(kd)
            continue
        if kinds is not None:
            kinds.append('invalid' if r < invalid_rate else 'ok')
        if r < invalid_rate:
            out.append(rand_invalid(rng, pool, bad))
            continue
        if r < invalid_rate + unknown_rate:
            out.append(rand_unknown_special(rng))
            continue
        k = rng.randrange(10)
        if k < 3 or not pool:
            id = rand_id(rng, pool)
            if bad and rng.random() < 0.15:
                id = rng.choice(bad)                  # an id that events referred to before it was defined
            pool.append(id)
            out.append(rand_source(rng, id))
        elif k == 3:
            out.append(wp_payload(rng.choice([0, 1, 7, (1 << 64) - 1]), rand_bytes(rng, 5, b'wrk12'), rng.randrange(0, 100)))
        elif k == 4:
            out.append(cs_payload(rng.randrange(1 << 20), rng.choice([0, 1, 1000, 10 ** 9, 3 * 10 ** 9]),
                                  rng.randrange(1 << 62), rng.choice([0, 3600, 0xFFFFF1F0]), rand_bytes(rng, 4, b'UTCES')))
        else:
            out.append(event_payload(rng.choice(pool), rng.choice([0, 1, 5, 5, 9, rng.randrange(1 << 64)]),
                                     rand_bytes(rng, max_args)))
    return out


def rand_invalid(rng, pool, bad=None):
    k = rng.randrange(6)
    if k == 0:   # payload shorter than a tag
        return bytes(rng.randrange(256) for _ in range(rng.randrange(1, 8)))
    if k == 1 or (k == 5 and bad):   # event with unknown id: a new one, or (half of the time) one that was used before
        cand = rng.randrange(1 << 63)
        if bad and rng.random() < 0.6:
            cand = rng.choice(bad)
        elif pool and rng.random() < 0.3:
            cand = (rng.choice(pool) + rng.choice([1, -1])) % (1 << 63)
        while cand in pool:
            cand ^= 1 << rng.randrange(63)
        if bad is not None:
            bad.append(cand)
        return event_payload(cand, rng.randrange(100), rand_bytes(rng))
    if k == 2 and pool:   # event too short for a clock
        return u64(rng.choice(pool)) + bytes(rng.randrange(256) for _ in range(rng.randrange(0, 8)))
    # truncated metadata payload
    full = rng.choice([rand_source(rng, rand_id(rng, pool)), wp_payload(3, b'name', 9), cs_payload(1, 2, 3, 4, b'TZ')])
    cut = rng.randrange(8, len(full))
    return full[:cut]


def rand_unknown_special(rng):
    while True:
        known = rng.choice([TAG_SOURCE, TAG_WP, TAG_CS])
        tag = rng.choice([(1 << 63), (1 << 64) - 4, (1 << 64) - 100, rng.randrange(1 << 63, 1 << 64),
                          # near misses of the known tags: one bit flipped, the same low 32 / 16 / 8 bits under other high bits
                          known ^ (1 << rng.randrange(63)),
                          (known & 0xFFFFFFFF) | (rng.randrange(1 << 31, 1 << 32) << 32),
                          (known & 0xFFFF) | (rng.randrange(1 << 47, 1 << 48) << 16),
                          (known & 0xFF) | (rng.randrange(1 << 55, 1 << 56) << 8),
                          (known & ~0xFFFFFFFF & ((1 << 64) - 1)) | rng.randrange(1 << 32)])
        if tag not in (TAG_SOURCE, TAG_WP, TAG_CS):
            return u64(tag) + rand_bytes(rng, 9)


def rand_chunking(rng, payloads):
    """split a payload list into whole-entry chunks"""
    chunks, cur = [], []
    for p in payloads:
        cur.append(p)
        if rng.random() < 0.4:
            chunks.append(cur)
            cur = []
    if cur:
        chunks.append(cur)
    return chunks


def hexs(b): return b.hex() if b else '-'
