#!/usr/bin/env python3
"""A small source-to-Lean translator for the loop-free integer kernels of binlog.

It is the second half of the translator part of the tie (the first is tools/extract.py): the *text* of
selected C++ functions of /repo's working tree is parsed (a C++ subset: declarations of integer
locals, assignments, if/else, return, assert, throw, ternaries, casts, the integer operators, atomic
load/store, pointer offsets) and symbolically executed into one Lean definition per function that
maps the function's inputs to a record of everything the function can affect (return value, every
assigned variable, every atomic store, the conjunction of its asserts, whether it throws, the
opaque calls it makes in order).  Integer semantics are C++'s: every operation is performed in the
type the usual arithmetic conversions give and wrapped to that type's width (`CSem.u64`, `i64`,
`u32`, `i32` over `Int`), division truncates.  Nothing is simplified.

The generated file `Generated/Src.lean` is consumed by hand-written *bridge lemmas*
(`Lemmas/SrcBridge.lean`) which prove, for all inputs in the range the callers guarantee, that
the hand-written model computes exactly what the generated definition computes.  An edit of the
C++ that changes the computed values makes a bridge lemma fail (a broken proof obligation); an
edit that does not (renaming a local, reordering independent statements, a different but
equivalent expression) regenerates a different definition about which the same lemma still
proves — so harmless rewrites do not alarm.

Fail-closed: anything outside the subset raises TranslateError, which the checks report as a
broken tie."""
import os
import re
import os as _os, sys as _sys
_sys.path.insert(0, _os.path.dirname(_os.path.abspath(__file__)))
import cxxcanon
import sys

REPO = os.environ.get('VERIF_REPO', '/repo')


class TranslateError(Exception):
    pass


# ---------------------------------------------------------------------------------------------
# lexer
# ---------------------------------------------------------------------------------------------

TOKEN_RE = re.compile(r'''
    (?P<ws>\s+)
  | (?P<num>0[xX][0-9a-fA-F]+[uUlL]*|\d+[uUlL]*)
  | (?P<str>"(?:[^"\\]|\\.)*")
  | (?P<chr>'(?:[^'\\]|\\.)')
  | (?P<id>[A-Za-z_][A-Za-z_0-9]*(?:::[A-Za-z_][A-Za-z_0-9]*)*)
  | (?P<op>->|\+\+|--|<<=|>>=|<=|>=|==|!=|&&|\|\||\+=|-=|\*=|/=|%=|<<|>>|[-+*/%<>=!&|^~?:;,.(){}\[\]])
''', re.X)


def lex(text):
    toks = []
    i = 0
    while i < len(text):
        m = TOKEN_RE.match(text, i)
        if not m:
            raise TranslateError('cannot tokenize at: %r' % text[i:i + 30])
        i = m.end()
        k = m.lastgroup
        if k == 'ws':
            continue
        toks.append((k, m.group(k)))
    toks.append(('eof', ''))
    return toks


# ---------------------------------------------------------------------------------------------
# types
# ---------------------------------------------------------------------------------------------

TYPE_NAMES = {
    'std::size_t': 'u64', 'size_t': 'u64', 'std::uint64_t': 'u64', 'uint64_t': 'u64', 'key_type': 'u64',
    'std::uintptr_t': 'u64', 'std::streamsize': 'i64', 'std::int64_t': 'i64', 'int64_t': 'i64',
    'std::ptrdiff_t': 'i64', 'std::time_t': 'i64',
    'std::uint32_t': 'u32', 'uint32_t': 'u32', 'unsigned': 'u32', 'std::int32_t': 'i32', 'int32_t': 'i32',
    'int': 'i32', 'bool': 'bool', 'char': 'i8', 'nanos': 'i64', 'std::chrono::nanoseconds': 'i64',
    'std::chrono::seconds': 'i64',
}
RANK = {'i8': 0, 'bool': 0, 'i32': 1, 'u32': 2, 'i64': 3, 'u64': 4}


LIMITS = {'u64': (0, 2 ** 64), 'i64': (-2 ** 63, 2 ** 63), 'u32': (0, 2 ** 32), 'i32': (-2 ** 31, 2 ** 31), 'i8': (-128, 128)}


def wrap(ty, e):
    if ty in LIMITS and re.fullmatch(r'\d+', e) and LIMITS[ty][0] <= int(e) < LIMITS[ty][1]:
        return e          # a literal that is representable in the type: the conversion is the identity
    if ty in ('u64', 'i64', 'u32', 'i32', 'i8'):
        return '(%s %s)' % (ty, e)
    if ty == 'ptr':
        return e
    raise TranslateError('cannot wrap to type %s' % ty)


def promote(t):
    return 'i32' if t in ('i8', 'bool') else t


def common(t1, t2):
    t1, t2 = promote(t1), promote(t2)
    return t1 if RANK[t1] >= RANK[t2] else t2


# ---------------------------------------------------------------------------------------------
# parser (expressions: Pratt; statements: recursive descent) producing a tiny AST
# ---------------------------------------------------------------------------------------------

BINPREC = {'||': 1, '&&': 2, '|': 3, '^': 4, '&': 5, '==': 6, '!=': 6, '<': 7, '<=': 7, '>': 7, '>=': 7,
           '<<': 8, '>>': 8, '+': 9, '-': 9, '*': 10, '/': 10, '%': 10}


class Parser:
    def __init__(self, toks, spec):
        self.t = toks
        self.i = 0
        self.spec = spec

    def peek(self, k=0):
        return self.t[self.i + k]

    def next(self):
        tok = self.t[self.i]
        self.i += 1
        return tok

    def accept(self, val):
        if self.peek()[1] == val and self.peek()[0] in ('op', 'id'):
            self.i += 1
            return True
        return False

    def expect(self, val):
        if not self.accept(val):
            raise TranslateError('expected %r, got %r (…%s)' % (val, self.peek()[1], ' '.join(x[1] for x in self.t[max(0, self.i - 6):self.i + 4])))

    def is_type(self, tok):
        return tok[0] == 'id' and (tok[1] in TYPE_NAMES or tok[1] in self.spec.get('types', {}))

    def type_of(self, name):
        return self.spec.get('types', {}).get(name) or TYPE_NAMES[name]

    # ---- statements -------------------------------------------------------------------------
    def block(self):
        stmts = []
        while self.peek()[0] != 'eof' and self.peek()[1] != '}':
            stmts.append(self.stmt())
        return stmts

    def stmt(self):
        tok = self.peek()
        if tok[1] == '{':
            self.next()
            b = self.block()
            self.expect('}')
            return ('block', b)
        if tok[1] == ';':
            self.next()
            return ('block', [])
        if tok[1] == 'if':
            self.next()
            self.expect('(')
            c = self.expr()
            self.expect(')')
            th = self.stmt()
            el = ('block', [])
            if self.accept('else'):
                el = self.stmt()
            return ('if', c, th, el)
        if tok[1] == 'return':
            self.next()
            if self.accept(';'):
                return ('return', None)
            e = self.expr()
            self.expect(';')
            return ('return', e)
        if tok[1] == 'throw':
            self.next()
            depth = 0
            while not (self.peek()[1] == ';' and depth == 0):
                if self.peek()[1] in '({[':
                    depth += 1
                if self.peek()[1] in ')}]':
                    depth -= 1
                if self.peek()[0] == 'eof':
                    raise TranslateError('unterminated throw')
                self.next()
            self.expect(';')
            return ('throw',)
        if tok[1] in ('for', 'while', 'do', 'switch', 'goto', 'try'):
            raise TranslateError('unsupported statement: %s' % tok[1])
        if tok[1] == 'using':
            while self.next()[1] != ';':
                pass
            return ('block', [])
        # declaration?
        j = self.i
        if self.peek()[1] == 'const':
            j += 1
        if self.is_type(self.t[j]) and self.t[j + 1][0] == 'id' and self.t[j + 1][1] not in ('const',) and self.t[j + 2][1] in ('=', ';', '{'):
            self.accept('const')
            ty = self.type_of(self.next()[1])
            name = self.next()[1]
            init = None
            if self.accept('='):
                init = self.expr()
            elif self.peek()[1] == '{':
                self.next()
                init = self.expr()
                self.expect('}')
            self.expect(';')
            return ('decl', ty, name, init)
        if self.peek()[1] == 'const' or (tok[0] == 'id' and tok[1] in ('auto', 'void', 'char') and self.peek(1)[1] in ('*', '&')) \
                or (self.is_type(tok) and self.peek(1)[1] in ('*', '&')):
            # pointer/reference declaration: `void* result = e;`, `const char* result = _begin;`
            self.accept('const')
            self.next()
            while self.peek()[1] in ('*', '&', 'const'):
                self.next()
            name = self.next()[1]
            self.expect('=')
            init = self.expr()
            self.expect(';')
            return ('decl', 'ptr', name, init)
        e = self.expr()
        if self.peek()[1] in ('=', '+=', '-='):
            op = self.next()[1]
            rhs = self.expr()
            self.expect(';')
            return ('assign', op, e, rhs)
        self.expect(';')
        return ('expr', e)

    # ---- expressions ------------------------------------------------------------------------
    def expr(self, prec=0):
        lhs = self.unary()
        while True:
            op = self.peek()[1]
            if self.peek()[0] == 'op' and op == '?' and prec <= 0:
                self.next()
                a = self.expr()
                self.expect(':')
                b = self.expr()
                lhs = ('ternary', lhs, a, b)
                continue
            if self.peek()[0] == 'op' and op in BINPREC and BINPREC[op] > prec:
                self.next()
                rhs = self.expr(BINPREC[op])
                lhs = ('bin', op, lhs, rhs)
                continue
            return lhs

    def unary(self):
        tok = self.peek()
        if tok[0] == 'op' and tok[1] in ('!', '-', '+', '~', '&', '*'):
            self.next()
            return ('un', tok[1], self.unary())
        if tok[0] == 'op' and tok[1] == '(':
            # C-style cast `(void)expr` or parenthesised expression
            if self.is_type(self.peek(1)) and self.peek(2)[1] == ')':
                self.next()
                ty = self.type_of(self.next()[1])
                self.next()
                return ('cast', ty, self.unary())
            if self.peek(1)[1] == 'void' and self.peek(2)[1] == ')':
                self.next(); self.next(); self.next()
                return self.unary()
        return self.postfix(self.primary())

    def primary(self):
        tok = self.next()
        if tok[0] == 'num':
            txt = tok[1].rstrip('uUlL')
            suf = tok[1][len(txt):].lower()
            v = int(txt, 0)
            ty = 'i32'
            if 'u' in suf:
                ty = 'u64' if 'l' in suf else 'u32'
            elif 'l' in suf:
                ty = 'i64'
            if ty == 'i32' and v >= 2 ** 31:
                ty = 'i64'
            return ('num', v, ty)
        if tok[0] == 'chr':
            body = tok[1][1:-1]
            v = ord(body) if len(body) == 1 else {'\\n': 10, '\\0': 0, '\\\\': 92, "\\'": 39, '\\t': 9}[body]
            return ('num', v, 'i8')
        if tok[0] == 'str':
            return ('str', tok[1])
        if tok[1] == '(':
            e = self.expr()
            self.expect(')')
            return e
        if tok[0] == 'id':
            name = tok[1]
            if name in ('static_cast', 'reinterpret_cast'):
                self.expect('<')
                tname = self.next()[1]
                while self.peek()[1] in ('*', 'const'):
                    self.next()
                self.expect('>')
                self.expect('(')
                e = self.expr()
                self.expect(')')
                return ('cast', self.type_of(tname) if (tname in TYPE_NAMES or tname in self.spec.get('types', {})) else 'ptr', e)
            if name == 'sizeof':
                self.expect('(')
                depth = 1
                txt = []
                while depth:
                    t = self.next()
                    if t[1] == '(':
                        depth += 1
                    if t[1] == ')':
                        depth -= 1
                    if depth:
                        txt.append(t[1])
                key = ''.join(txt)
                sz = self.spec.get('sizeof', {}).get(key)
                if sz is None:
                    raise TranslateError('sizeof(%s) not given in the spec' % key)
                return ('num', sz, 'u64')
            if name in ('true', 'false'):
                return ('bool', name == 'true')
            if name == 'nullptr':
                return ('num', 0, 'ptr')
            if self.is_type(tok) and self.peek()[1] in ('(', '{'):
                close = ')' if self.next()[1] == '(' else '}'
                e = self.expr()
                self.expect(close)
                return ('cast', self.type_of(name), e)
            return ('var', name)
        raise TranslateError('unexpected token %r' % (tok,))

    def postfix(self, e):
        while True:
            tok = self.peek()
            if tok[1] in ('.', '->'):
                self.next()
                name = self.next()[1]
                e = ('member', e, name)
            elif tok[1] == '(':
                self.next()
                args = []
                if self.peek()[1] != ')':
                    args.append(self.expr())
                    while self.accept(','):
                        args.append(self.expr())
                self.expect(')')
                e = ('call', e, args)
            elif tok[1] == '{' and e[0] in ('var',) and (e[1] in TYPE_NAMES or e[1] in self.spec.get('types', {})):
                self.next()
                a = self.expr()
                self.expect('}')
                e = ('cast', self.type_of(e[1]), a)
            elif tok[1] in ('++', '--'):
                raise TranslateError('unsupported: ' + tok[1])
            else:
                return e


# ---------------------------------------------------------------------------------------------
# symbolic execution into a decision tree of Lean expressions
# ---------------------------------------------------------------------------------------------

def lname(path):
    n = re.sub(r'[^A-Za-z0-9_]', '_', path)
    return n


class Exec:
    """spec keys:
         inputs:   ordered {lean_name: type}          (parameters of the generated definition)
         vars:     {c++ lvalue path: (lean_name, type)}  members / parameters readable by the function
         atomics:  {c++ path: lean_name}              std::atomic<size_t> members: load() reads the input, store() is an output
         outputs:  ordered [lean_name]                assigned variables that are reported (others are local)
         calls:    {name: ('const', type, lean_expr) | ('opaque', type, lean_input_or_None, [arg types]) | ('ignore',)}
         ret:      type or None
    """

    def __init__(self, spec):
        self.spec = spec
        self.cstack = []
        self.fresh = 0
        self.stores = list(spec.get('atomics', {}).values())

    def path(self, e):
        if e[0] == 'var':
            return e[1]
        if e[0] == 'member':
            return self.path(e[1]) + '.' + e[2]
        if e[0] == 'call' and not e[2]:
            return self.path(e[1]) + '()'
        raise TranslateError('not an lvalue path: %r' % (e,))

    # returns (lean_expr, type); bool-typed expressions are Lean Props (kind 'prop') or Bool terms ('bool')
    def ev(self, e, env):
        k = e[0]
        if k == 'num':
            return (str(e[1]), e[2])
        if k == 'bool':
            return ('True' if e[1] else 'False', 'prop')
        if k in ('var', 'member'):
            p = self.path(e)
            if p in env['locals']:
                return env['locals'][p]
            if p in self.spec.get('vars', {}):
                n, ty = self.spec['vars'][p]
                if n in self.spec.get('watch', []):
                    # a read of a watched (shared, non-atomic) variable: remember under which condition it is evaluated
                    env['wreads'].setdefault(n, []).append(' ∧ '.join(self.cstack) if self.cstack else 'True')
                if n in env['assigned']:
                    return env['assigned'][n]
                return (n, ty)
            if p in self.spec.get('consts', {}):
                v, ty = self.spec['consts'][p]
                return (str(v), ty)
            raise TranslateError('unknown variable %s' % p)
        if k == 'cast':
            v, ty = self.ev(e[2], env)
            if e[1] == 'bool':
                raise TranslateError('cast to bool')
            if ty in ('prop', 'bool'):
                raise TranslateError('cast from bool')
            if e[1] == 'ptr':
                return (v, 'ptr')
            return (wrap(e[1], v), e[1])
        if k == 'un':
            op = e[1]
            if op == '!':
                return ('¬ %s' % self.prop(e[2], env), 'prop')
            v, ty = self.ev(e[2], env)
            if op == '-':
                ty = promote(ty)
                return (wrap(ty, '(- %s)' % v), ty)
            if op == '+':
                return (v, promote(ty))
            raise TranslateError('unsupported unary %s' % op)
        if k == 'ternary':
            c = self.prop(e[1], env)
            self.cstack.append(c)
            a, ta = self.ev(e[2], env)
            self.cstack[-1] = '¬ %s' % c
            b, tb = self.ev(e[3], env)
            self.cstack.pop()
            if ta in ('prop', 'bool') or tb in ('prop', 'bool'):
                return ('(if %s then %s else %s)' % (c, self.as_prop(a, ta), self.as_prop(b, tb)), 'prop')
            ty = ta if ta == tb else ('ptr' if 'ptr' in (ta, tb) else common(ta, tb))
            if ty != 'ptr':
                a = a if ta == ty else wrap(ty, a)
                b = b if tb == ty else wrap(ty, b)
            return ('(if %s then %s else %s)' % (c, a, b), ty)
        if k == 'bin':
            op = e[1]
            if op in ('&&', '||'):
                left = self.prop(e[2], env)
                self.cstack.append(left if op == '&&' else '¬ %s' % left)      # the right operand is evaluated only then
                right = self.prop(e[3], env)
                self.cstack.pop()
                return ('(%s %s %s)' % (left, '∧' if op == '&&' else '∨', right), 'prop')
            a, ta = self.ev(e[2], env)
            b, tb = self.ev(e[3], env)
            if ta in ('prop', 'bool') or tb in ('prop', 'bool'):
                raise TranslateError('arithmetic on bool')
            if op in ('<', '<=', '>', '>=', '==', '!='):
                if 'ptr' not in (ta, tb):
                    ty = common(ta, tb)
                    a = a if promote(ta) == ty else wrap(ty, a)
                    b = b if promote(tb) == ty else wrap(ty, b)
                lop = {'<': '<', '<=': '≤', '>': '>', '>=': '≥', '==': '=', '!=': '≠'}[op]
                return ('(%s %s %s)' % (a, lop, b), 'prop')
            if 'ptr' in (ta, tb):
                if op == '+' or (op == '-' and tb != 'ptr'):
                    return ('(%s %s %s)' % (a, op, b), 'ptr')
                if op == '-' and ta == 'ptr' and tb == 'ptr':
                    return ('(%s - %s)' % (a, b), 'i64')
                raise TranslateError('unsupported pointer arithmetic')
            ty = common(ta, tb)
            a = a if promote(ta) == ty else wrap(ty, a)
            b = b if promote(tb) == ty else wrap(ty, b)
            if op in ('+', '-', '*'):
                return (wrap(ty, '(%s %s %s)' % (a, op, b)), ty)
            if op == '/':
                return (wrap(ty, '(Int.tdiv %s %s)' % (a, b)), ty)
            if op == '%':
                return (wrap(ty, '(Int.tmod %s %s)' % (a, b)), ty)
            raise TranslateError('unsupported operator %s' % op)
        if k == 'call':
            return self.call(e, env)
        raise TranslateError('unsupported expression %r' % (e,))

    def as_prop(self, v, ty):
        if ty == 'prop':
            return v
        if ty == 'bool':
            return '(%s = true)' % v
        raise TranslateError('integer used as a condition: %s' % v)

    def prop(self, e, env):
        v, ty = self.ev(e, env)
        return self.as_prop(v, ty)

    def call(self, e, env):
        f, args = e[1], e[2]
        # atomic load / store
        if f[0] == 'member' and f[2] in ('load', 'store'):
            p = self.path(f[1])
            if p not in self.spec.get('atomics', {}):
                raise TranslateError('load/store on unknown atomic %s' % p)
            n = self.spec['atomics'][p]
            if f[2] == 'load':
                return (n, 'u64')
            v, ty = self.ev(args[0], env)
            if ty != 'u64':
                v = wrap('u64', v)
            env['stores'][n] = v
            return ('0', 'void')
        if f[0] == 'member' and f[2] == 'count' and not args:
            return self.ev(f[1], env)
        name = self.path(f) if f[0] in ('var', 'member') else None
        rule = self.spec.get('calls', {}).get(name)
        if rule is None:
            raise TranslateError('call of unknown function %s' % name)
        if rule[0] == 'const':
            return (rule[2], rule[1])
        if rule[0] == 'ignore':
            return ('0', 'void')
        if rule[0] == 'expr':            # pure sibling function, inlined from its own source: its return expression is parsed
            sub = rule[1]
            if len(args) != len(rule[2]):
                raise TranslateError('arity of %s' % name)
            saved = dict(env['locals'])
            for pn, a in zip(rule[2], args):
                env['locals'][pn] = self.ev(a, env)
            r = self.ev(sub, env)
            env['locals'] = saved
            return r
        if rule[0] == 'opaque':
            vals = []
            for a, aty in zip(args, rule[3]):
                if aty == 'skip':
                    continue
                v, ty = self.ev(a, env)
                vals.append(v)
            env['effects'].append('("%s", [%s])' % (name, ', '.join(vals)))
            if len(rule) > 4:
                for vn, (vexpr, vty) in rule[4].items():
                    env['assigned'][vn] = (vexpr, vty)
            if rule[2] is None:
                return ('0', 'void')
            if rule[2] == '$arg0':
                return self.ev(args[0], env)
            return (rule[2], rule[1])
        raise TranslateError('bad call rule for %s' % name)

    # ---- statements: returns a tree  ('let', name, expr, sub) | ('if', cond, t, e) | ('leaf', env)
    def run(self, stmts, env, cont):
        if not stmts:
            return cont(env)
        s, rest = stmts[0], stmts[1:]
        k = s[0]
        if k == 'block':
            # locals declared inside the block go out of scope afterwards; they are uniquely named in Lean, so keep them
            return self.run(list(s[1]) + list(rest), env, cont)
        if k == 'decl':
            ty, name, init = s[1], s[2], s[3]
            if init is None:
                env['locals'][name] = ('0', ty)
                return self.run(rest, env, cont)
            if init[0] == 'ternary' and self.has_effect(init):
                raise TranslateError('effectful ternary in a declaration')
            v, vty = self.ev(init, env)
            if vty in ('prop', 'bool'):
                if ty != 'bool':
                    raise TranslateError('bool assigned to %s' % ty)
                ln = self.unique(name, env)
                env['locals'][name] = (ln, 'bool')
                return ('let', ln, 'decide %s' % self.as_prop(v, vty), self.run(rest, env, cont))
            if ty == 'bool':
                raise TranslateError('integer assigned to bool')
            if ty != 'ptr' and vty != ty:
                v = wrap(ty, v)
            ln = self.unique(name, env)
            env['locals'][name] = (ln, ty)
            return ('let', ln, v, self.run(rest, env, cont))
        if k == 'assign':
            op, lhs, rhs = s[1], s[2], s[3]
            p = self.path(lhs)
            if op != '=':
                rhs = ('bin', op[0], lhs, rhs)
            v, vty = self.ev(rhs, env)
            if p in env['locals']:
                _, ty = env['locals'][p]
                if ty != 'ptr' and vty != ty:
                    v = wrap(ty, v)
                ln = self.unique(p, env)
                env['locals'][p] = (ln, ty)
                return ('let', ln, v, self.run(rest, env, cont))
            if p not in self.spec.get('vars', {}):
                raise TranslateError('assignment to unknown variable %s' % p)
            n, ty = self.spec['vars'][p]
            if n in self.spec.get('watch', []):
                env['wwrites'][n] = True
            if ty != 'ptr' and vty != ty:
                v = wrap(ty, v)
            ln = self.unique(n, env)
            env['assigned'][n] = (ln, ty)
            return ('let', ln, v, self.run(rest, env, cont))
        if k == 'if':
            c = self.prop(s[1], env)
            e1, e2 = self.copy(env), self.copy(env)
            t1 = self.run([s[2]] + list(rest), e1, cont)
            t2 = self.run([s[3]] + list(rest), e2, cont)
            return ('if', c, t1, t2)
        if k == 'return':
            if s[1] is not None:
                if s[1][0] == 'ternary' and self.has_effect(s[1]):
                    return self.run([('if', s[1][1], ('return', s[1][2]), ('return', s[1][3]))], env, cont)
                v, vty = self.ev(s[1], env)
                rty = self.spec.get('ret')
                if rty == 'bool':
                    v = 'decide %s' % self.as_prop(v, vty)
                elif rty == 'ptr' or rty is None:
                    pass
                elif vty != rty:
                    v = wrap(rty, v)
                env['ret'] = v
            return ('leaf', env)
        if k == 'throw':
            env['throws'] = True
            return ('leaf', env)
        if k == 'expr':
            e = s[1]
            if e[0] == 'call' and e[1][0] == 'var' and e[1][1] == 'assert':
                env['asserts'].append(self.prop(e[2][0], env))
                return self.run(rest, env, cont)
            if e[0] == 'call':
                self.ev(e, env)
                return self.run(rest, env, cont)
            raise TranslateError('expression statement without effect')
        raise TranslateError('unsupported statement %r' % (k,))

    def has_effect(self, e):
        if e[0] == 'call':
            f = e[1]
            name = self.path(f) if f[0] in ('var', 'member') else None
            rule = self.spec.get('calls', {}).get(name)
            if rule is not None and rule[0] == 'opaque':
                return True
            if f[0] == 'member' and f[2] == 'store':
                return True
        return any(self.has_effect(x) for x in e[1:] if isinstance(x, tuple)) or \
            any(self.has_effect(y) for x in e[1:] if isinstance(x, list) for y in x)

    def unique(self, name, env):
        self.fresh += 1
        base = lname(name)
        return '%s_%d' % (base, self.fresh) if (base in self.used) else self._use(base)

    def _use(self, base):
        self.used.add(base)
        return base

    def copy(self, env):
        return {'locals': dict(env['locals']), 'assigned': dict(env['assigned']), 'stores': dict(env['stores']),
                'asserts': list(env['asserts']), 'effects': list(env['effects']), 'ret': env['ret'], 'throws': env['throws'],
                'wreads': {k: list(v) for k, v in env['wreads'].items()}, 'wwrites': dict(env['wwrites'])}

    def translate(self, stmts):
        self.used = set(self.spec['inputs'].keys())
        env = {'locals': {}, 'assigned': {}, 'stores': {}, 'asserts': [], 'effects': [], 'ret': None, 'throws': False,
               'wreads': {}, 'wwrites': {}}
        for pn, (ln, ty) in self.spec.get('params', {}).items():
            env['locals'][pn] = (ln, ty)
        return self.run(stmts, env, lambda e: ('leaf', e))


def lean_type(ty):
    return 'Bool' if ty == 'bool' else 'Int'


def emit(tree, spec, ind):
    pad = '  ' * ind
    if tree[0] == 'let':
        return '%slet %s := %s\n%s' % (pad, tree[1], tree[2], emit(tree[3], spec, ind))
    if tree[0] == 'if':
        return '%sif %s then\n%s\n%selse\n%s' % (pad, tree[1], emit(tree[2], spec, ind + 1), pad, emit(tree[3], spec, ind + 1))
    env = tree[1]
    fields = []
    rty = spec.get('ret')
    if rty is not None:
        dflt = 'false' if rty == 'bool' else '0'
        fields.append('ret := %s' % (env['ret'] if env['ret'] is not None else dflt))
    for n in spec.get('outputs', []):
        if n in env['assigned']:
            fields.append('%s := %s' % (n, env['assigned'][n][0]))
        else:
            fields.append('%s := %s' % (n, n))
    for n in spec.get('atomics', {}).values():
        if n + '_store' in spec.get('store_outputs', []):
            fields.append('%s_store := %s' % (n, ('some %s' % env['stores'][n]) if n in env['stores'] else 'none'))
    for n in spec.get('watch', []):
        conds = env['wreads'].get(n, [])
        if not conds:
            rd = 'false'
        elif 'True' in conds:
            rd = 'true'
        else:
            rd = 'decide (%s)' % ' ∨ '.join('(%s)' % c for c in conds)
        fields.append('%s_read := %s' % (n, rd))
        fields.append('%s_written := %s' % (n, 'true' if env['wwrites'].get(n) else 'false'))
    fields.append('ok := %s' % ('decide (%s)' % ' ∧ '.join(env['asserts']) if env['asserts'] else 'true'))
    fields.append('throws := %s' % ('true' if env['throws'] else 'false'))
    fields.append('effects := [%s]' % ', '.join(env['effects']))
    return '%s{ %s }' % (pad, ', '.join(fields))


def struct_decl(name, spec):
    lines = ['structure %s.Out where' % name]
    if spec.get('ret') is not None:
        lines.append('  ret : %s' % lean_type(spec['ret']))
    for n in spec.get('outputs', []):
        lines.append('  %s : Int' % n)
    for n in spec.get('store_outputs', []):
        lines.append('  %s : Option Int' % n)
    for n in spec.get('watch', []):
        lines.append('  %s_read : Bool      -- the function reads the shared non-atomic `%s` on this path' % (n, n))
        lines.append('  %s_written : Bool' % n)
    lines.append('  ok : Bool          -- conjunction of the asserts passed on the executed path')
    lines.append('  throws : Bool      -- the path ends in a throw statement')
    lines.append('  effects : List (String × List Int)   -- opaque calls in program order, integer arguments only')
    lines.append('deriving DecidableEq, Repr')
    return '\n'.join(lines)


# ---------------------------------------------------------------------------------------------
# finding function bodies in the sources
# ---------------------------------------------------------------------------------------------

def strip_comments(src):
    """comments and formatting removed (tools/cxxcanon.py): the per-function `rewrites` are written for that canonical text"""
    return cxxcanon.canon_source(src)


def cpat(snippet):
    """regex matching the canonical form of a C++ snippet"""
    return re.escape(cxxcanon.canon_code(snippet))


def function_body(rel, name, nth=0):
    src = strip_comments(open(os.path.join(REPO, rel)).read())
    src = re.sub(r'^\s*#\s*ifdef _WIN32.*?#\s*else[^\n]*\n(.*?)#\s*endif', r'\1', src, flags=re.S | re.M)
    found = []
    for m in re.finditer(r'\b(?:[A-Za-z_][A-Za-z_0-9]*::)?' + re.escape(name) + r'\s*\(((?:[^;{}()]|\([^()]*\))*)\)\s*(?:const)?\s*(?:noexcept)?\s*\{', src):
        # reject calls: the character before the match (ignoring space) must not be an operator that makes it an expression
        i = m.end()
        depth = 1
        while i < len(src) and depth:
            if src[i] == '{':
                depth += 1
            elif src[i] == '}':
                depth -= 1
            i += 1
        found.append((m.group(1), src[m.end():i - 1]))
    if len(found) <= nth:
        raise TranslateError('function %s not found in %s' % (name, rel))
    return found[nth]


def pure_return_expr(rel, name, spec):
    params, body = function_body(rel, name)
    toks = lex(body)
    p = Parser(toks, spec)
    st = p.block()
    if len(st) != 1 or st[0][0] != 'return' or st[0][1] is None:
        raise TranslateError('%s is not a single return statement any more' % name)
    pnames = [x.strip().split()[-1].lstrip('&*') for x in params.split(',') if x.strip()]
    return st[0][1], pnames


def translate_function(fspec):
    spec = dict(fspec)
    calls = dict(spec.get('calls', {}))
    for cname, (crel, cfn) in spec.get('inline_pure', {}).items():
        sub, pn = pure_return_expr(crel, cfn, spec)
        calls[cname] = ('expr', sub, pn)
    spec['calls'] = calls
    params, body = function_body(spec['file'], spec['function'], spec.get('nth', 0))
    for pat, rep in spec.get('rewrites', []):
        body = re.sub(pat, rep, body)
    toks = lex(body)
    p = Parser(toks, spec)
    stmts = p.block()
    if p.peek()[0] != 'eof':
        raise TranslateError('trailing tokens in %s' % spec['function'])
    ex = Exec(spec)
    tree = ex.translate(stmts)
    name = spec['lean_name']
    args = ' '.join('(%s : %s)' % (n, lean_type(t)) for n, t in spec['inputs'].items())
    out = [struct_decl(name, spec), '',
           '/-- `%s` of %s, translated from the source text -/' % (spec['function'], spec['file']),
           'def %s %s : %s.Out :=' % (name, args, name),
           emit(tree, spec, 1), '']
    return '\n'.join(out), re.sub(r'\s+', ' ', body).strip()


if __name__ == '__main__':
    import c2lean_specs
    print(c2lean_specs.generate())
