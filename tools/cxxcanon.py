"""Canonical text of a C++ source for pattern matching: comments removed, white space removed except a single blank between two
word tokens, preprocessor directives on lines of their own.  Two sources that differ in formatting only (indentation, line
breaks, brace placement, `T& x` / `T &x`, `> >` / `>>`, blanks inside parentheses) have the same canonical text, so nothing
extracted from it depends on the formatting."""
import re

TOKEN = re.compile(r'[A-Za-z_][A-Za-z_0-9]*|\d(?:[\w.]|[eEpP][+-])*|"(?:\\.|[^"\\\n])*"|\'(?:\\.|[^\'\\\n])*\'|\S')
KEEP_APART = {('+', '+'), ('-', '-'), ('&', '&'), ('|', '|'), ('<', '<'), ('=', '='), ('+', '='), ('-', '='), ('!', '='), ('<', '='),
              ('>', '='), ('-', '>'), (':', ':'), ('/', '/'), ('/', '*'), ('*', '/'), ('<', ':'), ('%', ':'), ('.', '.'), ('&', '='),
              ('|', '='), ('^', '='), ('*', '='), ('/', '='), ('%', '=')}


def strip_comments(src):
    src = re.sub(r'/\*.*?\*/', lambda m: re.sub(r'[^\n]', ' ', m.group(0)), src, flags=re.S)
    return re.sub(r'//[^\n]*', '', src)


def canon_code(text):
    out = []
    prev, prev_end = None, 0
    for m in TOKEN.finditer(text):
        t = m.group(0)
        if prev is not None:
            gap = m.start() > prev_end
            if (prev[-1].isalnum() or prev[-1] == '_') and (t[0].isalnum() or t[0] == '_'):
                out.append(' ')
            elif gap and (prev[-1], t[0]) in KEEP_APART and len(prev) == 1 and len(t) == 1:
                out.append(' ')
        out.append(t)
        prev, prev_end = t, m.end()
    return ''.join(out)


def canon(src):
    """canonical text of a source whose comments have been removed"""
    src = src.replace('\\\n', ' ')
    parts, code = [], []
    for line in src.split('\n'):
        if line.lstrip().startswith('#'):
            if code:
                parts.append(canon_code('\n'.join(code)))
                code = []
            parts.append(' '.join(line.split()))
        else:
            code.append(line)
    if code:
        parts.append(canon_code('\n'.join(code)))
    return '\n'.join(p for p in parts if p) + '\n'


def canon_source(src):
    return canon(strip_comments(src))
