"""Generator of hand-written tags with struct back-references (recursive structs, shared sub-structs) and of values for
them, with an INDEPENDENT statement of what visiting must report (doc/Mserialize.md: a struct tag is `{Name`field'tag…}`;
`{Name}` inside refers to the definition of Name that occurs in the full tag).

RTy:  ('A', c) | ('Q', elem) | ('T', [elems]) | ('O', inner)  (optional: `<0t>`) | ('S', name, [(field, ty)]) definition
      | ('R', name)  back-reference to a struct defined earlier in the tag, or enclosing
Values: ('n', raw) | ('q', [..]) | ('t', [..]) | ('a', 0|1, val) | ('z',)
Names are drawn from a pool in which names are proper prefixes of other names (A, AA, AB, A1, Node, NodeList …): the
resolution of `{A}` must not be confused by `{AA…` or `{A1…`.
"""
import struct

NAMES = ['A', 'AA', 'AB', 'A1', 'AAA', 'Node', 'NodeList', 'N', 'B', 'BA', 'Expr', 'ExprStmt', 'T', 'Tree']
ARITH = {'y': 1, 'c': 1, 'b': 1, 's': 2, 'i': 4, 'l': 8, 'B': 1, 'S': 2, 'I': 4, 'L': 8}


class RGen:
    def __init__(self, rng):
        self.rng = rng
        self.defs = {}        # name -> field list, in definition (tag) order
        self.closed = []      # names whose definition is complete
        self.open = []        # (name, guard level at its opening) of the enclosing definitions
        self.guards = 0       # number of optionals/sequences we are inside of
        self.free = {}        # closed name -> names of structs it refers to that were still open when it was closed
        self.refs = []        # stack: names referred to inside the definitions being generated

    def ty(self, depth, guarded=False):
        """a reference to an ENCLOSING struct is only generated below an optional or a sequence that lies inside that
        struct (otherwise the type has no finite value)"""
        r = self.rng
        k = r.randrange(12)
        if depth >= 4 or k < 3:
            return ('A', r.choice(sorted(ARITH)))
        if k < 5:
            self.guards += 1
            e = self.ty(depth + 1)
            self.guards -= 1
            return ('Q', e)
        if k < 6:
            return ('T', [self.ty(depth + 1, guarded) for _ in range(r.choice([1, 2, 3]))])
        if k < 8:
            self.guards += 1
            e = self.ty(depth + 1)
            self.guards -= 1
            return ('O', e)
        if k < 10:
            # a reference, if one is possible here
            ok_open = dict((n, self.guards > g) for n, g in self.open)
            cands = [c for c in self.closed if all(ok_open.get(n, True) for n in self.free[c])] + [n for n, g in self.open if self.guards > g]
            if cands:
                c = r.choice(cands)
                for st in self.refs:
                    st.add(c)
                    st.update(self.free.get(c, ()))
                return ('R', c)
        free = [n for n in NAMES if n not in self.defs]
        if not free:
            return ('A', 'i')
        name = r.choice(free)
        self.defs[name] = None
        self.open.append((name, self.guards))
        self.refs.append(set())
        fields = [('f%d' % i if r.random() < 0.8 else '', self.ty(depth + 1, guarded)) for i in range(r.choice([1, 2, 3]))]
        self.open.pop()
        self.free[name] = set(n for n in self.refs.pop() if n != name and any(n == o for o, _ in self.open))
        self.closed.append(name)
        self.defs[name] = fields
        return ('S', name, fields)

    def val(self, t, budget):
        r = self.rng
        k = t[0]
        if k == 'A':
            return ('n', r.randrange(1 << (8 * ARITH[t[1]])) if t[1] != 'y' else r.randrange(2))
        if k == 'Q':
            n = 0 if budget <= 0 else r.choice([0, 1, 2, 3])
            return ('q', [self.val(t[1], budget - 1) for _ in range(n)])
        if k == 'T':
            return ('t', [self.val(e, budget) for e in t[1]])
        if k == 'O':
            if budget <= 0 or r.random() < 0.3:
                return ('a', 0, ('z',))
            return ('a', 1, self.val(t[1], budget - 1))
        if k == 'S':
            return ('t', [self.val(ft, budget) for _, ft in t[2]])
        if k == 'R':
            return ('t', [self.val(ft, budget - 1) for _, ft in self.defs[t[1]]])
        raise ValueError(t)


def tag(t):
    k = t[0]
    if k == 'A': return t[1]
    if k == 'Q': return '[' + tag(t[1])
    if k == 'T': return '(' + ''.join(tag(e) for e in t[1]) + ')'
    if k == 'O': return '<0' + tag(t[1]) + '>'
    if k == 'S': return '{' + t[1] + field_tags(t[2]) + '}'
    if k == 'R': return '{' + t[1] + '}'
    raise ValueError(t)


def field_tags(fields):
    return ''.join('`' + n + "'" + tag(ft) for n, ft in fields)


def encode(t, v, defs):
    k = t[0]
    if k == 'A': return v[1].to_bytes(ARITH[t[1]], 'little')
    if k == 'Q': return struct.pack('<I', len(v[1])) + b''.join(encode(t[1], e, defs) for e in v[1])
    if k == 'T': return b''.join(encode(e, x, defs) for e, x in zip(t[1], v[1]))
    if k == 'O': return bytes([v[1]]) + (encode(t[1], v[2], defs) if v[1] == 1 else b'')
    if k == 'S': return b''.join(encode(ft, x, defs) for (_, ft), x in zip(t[2], v[1]))
    if k == 'R': return b''.join(encode(ft, x, defs) for (_, ft), x in zip(defs[t[1]], v[1]))
    raise ValueError(t)


def hx(s):
    return (s if isinstance(s, bytes) else s.encode()).hex()


def events(t, v, defs):
    """the callbacks of mserialize::Visitor in the notation of harness/mser_report.hpp's Recorder"""
    k = t[0]
    if k == 'A':
        return ['a%s:%s' % (t[1], v[1].to_bytes(ARITH[t[1]], 'little').hex())]
    if k == 'Q':
        out = ['sb%d:%s' % (len(v[1]), hx(tag(t[1])))]
        for e in v[1]:
            out += events(t[1], e, defs)
        return out + ['se']
    if k == 'T':
        out = ['tb:' + hx(''.join(tag(e) for e in t[1]))]
        for e, x in zip(t[1], v[1]):
            out += events(e, x, defs)
        return out + ['te']
    if k == 'O':
        if v[1] == 0:
            return ['vb0:' + hx('0'), 'nl', 've']
        return ['vb1:' + hx(tag(t[1]))] + events(t[1], v[2], defs) + ['ve']
    if k in ('S', 'R'):
        fields = t[2] if k == 'S' else defs[t[1]]
        out = ['stb:%s:%s' % (hx(t[1]), hx(field_tags(fields)))]
        for (n, ft), x in zip(fields, v[1]):
            out += ['fb:%s:%s' % (hx(n), hx(tag(ft)))] + events(ft, x, defs) + ['fe']
        return out + ['ste']
    raise ValueError(t)


def gen_case(rng):
    """returns (full tag bytes, argument bytes, expected event string, has_reference)"""
    while True:
        g = RGen(rng)
        t = g.ty(0, False)
        if t[0] == 'A':
            continue
        v = g.val(t, rng.choice([1, 2, 3, 4]))
        full = tag(t)
        return full.encode(), encode(t, v, g.defs), ','.join(events(t, v, g.defs)), '}' in full and any(('{%s}' % n) in full for n in g.defs)
