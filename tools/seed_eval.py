#!/usr/bin/env python3
"""Confirm a seeded change produced by a sub-agent and run our checks against it.
usage: seed_eval.py <PROPERTY_ID> <worktree> <name> [extra check ids...]
 1. the worktree (change applied) builds and its test suite passes;
 2. the demonstration fails with the change and passes without it;
 3. the patch is applied to /repo, the checks are run, /repo is restored;
 4. everything is stored under /verif/seeded/<name>/ with meta.json."""
import json, os, shutil, subprocess, sys, time

def sh(cmd, cwd=None, timeout=3600, env=None):
    p = subprocess.run(cmd, shell=True, cwd=cwd, stdout=subprocess.PIPE, stderr=subprocess.STDOUT, timeout=timeout, env=env)
    return p.returncode, p.stdout.decode('utf-8', 'replace')

def run_checks(patch, checks):
    results = {}
    rc, out = sh('git -C /repo apply %s' % patch)
    if rc != 0:
        print('patch does not apply to /repo:', out)
        return None
    try:
        for c in checks:
            t0 = time.time()
            rc, out = sh('./check.py %s --tier quick' % c, cwd='/verif', timeout=3600)
            viol = [l for l in out.split('\n') if l.startswith('VIOLATION')]
            msgs = [l for l in out.split('\n') if l.startswith(c + ':')]
            results[c] = {'rc': rc, 'violations': ([v for v in viol if 'no-failing-input-found' not in v][:2] + viol)[:4], 'first_message': (msgs[0] if msgs else '')[:300],
                          'wall_s': round(time.time() - t0, 1)}
            print(c, 'rc=%d' % rc, viol[:1])
    finally:
        sh('git -C /repo checkout -- .')
        sh('python3 /verif/tools/extract.py')
    return results


def recheck():
    """seed_eval.py --recheck <name> [check ids...] [--set key=value ...]: run the checks again against a stored change"""
    name = sys.argv[2]
    dest = os.path.join('/verif/seeded', name)
    meta = json.load(open(os.path.join(dest, 'meta.json')))
    checks = [a for a in sys.argv[3:] if not a.startswith('--') and '=' not in a] or [meta['property']]
    for a in sys.argv[3:]:
        if '=' in a and not a.startswith('--'):
            k, v = a.split('=', 1)
            meta[k] = v
    res = run_checks(os.path.join(dest, 'patch.diff'), checks)
    if res is not None:
        meta.setdefault('checks_against_change', {}).update(res)
        meta['detected_by'] = [c for c, r in meta['checks_against_change'].items() if r['rc'] == 1 and r['violations']]
    with open(os.path.join(dest, 'meta.json'), 'w') as f:
        json.dump(meta, f, indent=1)
    return 0


def main():
    if sys.argv[1] == '--recheck':
        return recheck()
    pid, wt, name = sys.argv[1:4]
    checks = [pid] + sys.argv[4:]
    seed = os.path.join(wt, '_seed')
    meta = {'property': pid, 'name': name, 'ran': []}
    patch = os.path.join(seed, 'patch.diff')
    # make sure the worktree has the change applied
    rc, out = sh('git apply --check -R %s' % patch, cwd=wt)
    if rc != 0:
        rc2, out2 = sh('git apply %s' % patch, cwd=wt)
        if rc2 != 0:
            print('cannot establish the changed state:', out, out2); return 2
    rc, out = sh('cmake -G Ninja -B _build -DCMAKE_BUILD_TYPE=Release >/dev/null && cmake --build _build -j16 2>&1 | tail -2 && ctest --test-dir _build -j8 2>&1 | tail -4', cwd=wt)
    meta['suite_with_change'] = {'rc': rc, 'tail': out[-400:]}
    meta['ran'].append('cmake --build + ctest in the scratch worktree with the change')
    suite_ok = rc == 0 and '100% tests passed' in out
    env = dict(os.environ); env['BINLOG_ROOT'] = wt
    rc, out = sh('bash %s/demo/run.sh' % seed, cwd=wt, env=env, timeout=900)
    demo_fails_with = (rc != 0) or ('FAIL' in out)
    meta['demo_with_change'] = {'rc': rc, 'tail': out[-600:]}
    sh('git apply -R %s' % patch, cwd=wt)
    rc, out = sh('bash %s/demo/run.sh' % seed, cwd=wt, env=env, timeout=900)
    demo_passes_without = (rc == 0) and ('FAIL' not in out)
    meta['demo_without_change'] = {'rc': rc, 'tail': out[-600:]}
    sh('git apply %s' % patch, cwd=wt)
    meta['ran'].append('demo/run.sh with the change (must fail) and with the patch reverted (must pass)')
    meta['confirmed'] = bool(suite_ok and demo_fails_with and demo_passes_without)
    print('suite_ok=%s demo_fails_with=%s demo_passes_without=%s' % (suite_ok, demo_fails_with, demo_passes_without))
    dest = os.path.join('/verif/seeded', name)
    if os.path.exists(dest):
        shutil.rmtree(dest)
    os.makedirs(dest)
    shutil.copy(patch, dest)
    if os.path.isdir(os.path.join(seed, 'demo')):
        shutil.copytree(os.path.join(seed, 'demo'), os.path.join(dest, 'demo'), ignore=shutil.ignore_patterns('*.o', 'a.out', 'demo', 'demo_bin', '*.blog', '_build'))
    for a in sys.argv[4:]:
        if '=' in a:
            k, v = a.split('=', 1)
            meta[k] = v
    checks = [c for c in checks if '=' not in c]
    for f in ('NOTES.md', 'SCHEDULE.md'):
        if os.path.exists(os.path.join(seed, f)):
            shutil.copy(os.path.join(seed, f), dest)
    # our checks against the change
    results = {}
    rc, out = sh('git -C /repo apply %s' % patch)
    if rc != 0:
        print('patch does not apply to /repo:', out); meta['applies_to_repo'] = False
    else:
        try:
            for c in checks:
                t0 = time.time()
                rc, out = sh('./check.py %s --tier quick' % c, cwd='/verif', timeout=3600)
                viol = [l for l in out.split('\n') if l.startswith('VIOLATION')]
                results[c] = {'rc': rc, 'violations': ([v for v in viol if 'no-failing-input-found' not in v][:2] + viol)[:4], 'first_message': next((l for l in out.split('\n') if l.startswith(c + ':') or l.startswith(c + ' ')), '')[:300],
                              'wall_s': round(time.time() - t0, 1)}
                print(c, 'rc=%d' % rc, viol[:1])
        finally:
            sh('git -C /repo checkout -- .')
            sh('python3 /verif/tools/extract.py')
    meta['checks_against_change'] = results
    meta['detected_by'] = [c for c, r in results.items() if r['rc'] == 1 and r['violations']]
    meta['ran'].append('git -C /repo apply patch.diff; ./check.py <id> --tier quick; git -C /repo checkout -- .')
    with open(os.path.join(dest, 'meta.json'), 'w') as f:
        json.dump(meta, f, indent=1)
    return 0

if __name__ == '__main__':
    sys.exit(main())
