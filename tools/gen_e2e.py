"""Generator of whole logging PROGRAMS for C07 (end to end): log statements of every macro family with generated argument types
and values, several named writers, an explicit session and the default session, explicit and system clocks, interleaved consumes —
together with the source-level description of every statement (severity, category, function, file, line, format string, typed
arguments, writer, clock) from which the check computes, independently of the library, what `bread` must print."""
import gen_types as GT

SEVERITIES = [('TRACE', 'trace', 32, 'TRAC'), ('DEBUG', 'debug', 64, 'DEBG'), ('INFO', 'info', 128, 'INFO'),
              ('WARN', 'warning', 256, 'WARN'), ('ERROR', 'error', 512, 'ERRO'), ('CRITICAL', 'critical', 1024, 'CRIT')]
CATEGORIES = ['main', 'net', 'db_layer', 'X', 'a1', 'Category_With_A_Long_Name']
FILES = ['main.cpp', 'src/net/conn.cpp', '/abs/path/to/file.hpp', 'dir\\\\win\\\\style.cpp', 'x', 'a/b/', 'trailing/slash/name.cc']
LITERALS = ['', 'a', 'value: ', ' = ', ', ', '{', '}', '{ ', ' }', '}{', '%', '%m', '%d', 'percent%', 'brace{ x', 'tab\\t', 'q\\"uote', 'back\\\\slash', 'é', ' ']


def c_string(s):
    return '"' + s + '"'


def unescape(s):
    """the bytes of a C string literal body as written by this generator (only \\t, \\\\ and \\" escapes are used)"""
    out, i = bytearray(), 0
    b = s.encode('utf-8')
    while i < len(b):
        if b[i] == 0x5c and i + 1 < len(b):
            n = b[i + 1]
            out.append({ord('t'): 9, ord('\\'): 0x5c, ord('"'): 0x22}[n])
            i += 2
        else:
            out.append(b[i])
            i += 1
    return bytes(out)


def make_program(rng, prefix, nstmts):
    g = GT.Gen(rng, prefix)
    g.no_time_point = True     # the expectation of a time point needs the clock sync: covered by the mser and time streams
    sync = (rng.choice([0, 1000, 123456789]), rng.choice([1, 1000, 1000000, 1000000000, 2400000000, 3]),
            rng.choice([0, 1600000000 * 10 ** 9, 1700000000123456789, 86399 * 10 ** 9 + 999999999, 4102444800 * 10 ** 9]),
            rng.choice([0, 3600, -18000, 19800, 45 * 60, -1]), rng.choice(['UTC', 'CET', 'X', '', 'LongZoneName']))
    nwriters = rng.choice([1, 2, 3])
    writers = []
    for w in range(nwriters):
        writers.append({'var': 'w%d' % w, 'id': rng.choice([0, 1, 7, 2 ** 32, 2 ** 64 - 1, w + 100]), 'name': rng.choice(['', 'writer', 'W%d' % w, 'a b', 'thread-%d' % w, 'n{}'])})
    default_writer = {'var': None, 'id': rng.choice([0, 5, 99]), 'name': rng.choice(['main-thread', 'dflt', ''])}
    stmts, funcs = [], []
    line = 10
    for i in range(nstmts):
        sev = rng.choice(SEVERITIES)
        nargs = rng.choice([0, 0, 1, 1, 2, 3, 5])
        args, lits = [], [rng.choice(LITERALS)]
        statics = []
        for _ in range(nargs):
            if rng.random() < 0.08:
                # a string longer than the printer's internal buffer (1024 bytes), and sizes around it
                n = rng.choice([1023, 1024, 1025, 2048, 3000])
                ch = rng.choice('LxZ')
                args.append({'ty': ('Q', ('A', 'c')), 'val': ('q', [('n', ord(ch))] * n), 'expr': "std::string(%d, '%s')" % (n, ch)})
            elif rng.random() < 0.15:
                text = rng.choice(['', 'lit', 'string literal', 'x{}y'])
                if rng.random() < 0.5:
                    # a string literal is a `const char[N]`: an array of N characters INCLUDING the terminator, logged as a container
                    args.append({'ty': ('Q', ('A', 'c')), 'val': ('q', [('n', c) for c in text.encode() + b'\0']), 'expr': c_string(text)})
                else:
                    # a `const char*` is by convention a null terminated string: logged without the terminator
                    args.append({'ty': ('Q', ('A', 'c')), 'val': ('q', [('n', c) for c in text.encode()]), 'expr': 'static_cast<const char*>(%s)' % c_string(text)})
            else:
                ty = g.rand_ty(depth=1)
                while ty[0] == 'N' or 'D' in GT.py_tag(ty):
                    ty = g.rand_ty(depth=1)
                rt = g.realise(ty)
                val = GT.canon_value_for(rt, g.rand_val(ty, depth=1))
                args.append({'ty': ty, 'val': val, 'expr': g.cxx_value(rt, val, statics)})
            lits.append(rng.choice(LITERALS))
        # literals must not create a `{}` across an argument boundary or on their own
        fmt_src = lits[0]
        for k in range(nargs):
            if fmt_src.endswith('{'):
                fmt_src += ' '
            fmt_src += '{}' + lits[k + 1]
        # a literal `{` directly followed by a literal `}` would be a placeholder: count must match the arguments
        if unescape(fmt_src).count(b'{}') != nargs:
            fmt_src = ''.join('{}' for _ in range(nargs))
        family = rng.choice(['W', 'WC', 'WC', 'PLAIN', 'C', 'EXPL', 'EXPL'])
        cat = rng.choice(CATEGORIES) if family in ('WC', 'C', 'EXPL') else 'main'
        writer = rng.choice(writers) if family in ('W', 'WC', 'EXPL') else default_writer
        clock = None
        if family == 'EXPL':
            clock = sync[0] + sync[1] * rng.choice([0, 1, 59, 60, 3599, 86399, 86400, 31 * 86400, 366 * 86400, rng.randrange(10 ** 8)]) + rng.choice([0, 0, sync[1] // 2 if sync[1] % 2 == 0 else 0])
        fname = '%s%s_%d' % (prefix, rng.choice(['fn', 'handle', 'operator_like', 'f']), i)
        file = rng.choice(FILES)
        line += rng.choice([1, 3, 100, 65536])
        arglist = ''.join(', ' + a['expr'] for a in args)
        wexpr = writer['var'] if writer['var'] else 'binlog::default_thread_local_writer()'
        if family == 'W':
            call = 'BINLOG_%s_W(%s, %s%s);' % (sev[0], wexpr, c_string(fmt_src), arglist)
        elif family == 'WC':
            call = 'BINLOG_%s_WC(%s, %s, %s%s);' % (sev[0], wexpr, cat, c_string(fmt_src), arglist)
        elif family == 'PLAIN':
            call = 'BINLOG_%s(%s%s);' % (sev[0], c_string(fmt_src), arglist)
        elif family == 'C':
            call = 'BINLOG_%s_C(%s, %s%s);' % (sev[0], cat, c_string(fmt_src), arglist)
        else:
            call = 'BINLOG_CREATE_SOURCE_AND_EVENT(%s, binlog::Severity::%s, %s, %dULL, %s%s);' % (wexpr, sev[1], cat, clock, c_string(fmt_src), arglist)
        params = '' if writer['var'] is None else 'binlog::SessionWriter& %s' % writer['var']
        funcs.append('static void %s(%s)\n{\n  %s\n#line %d "%s"\n  %s\n}\n' % (fname, params, '\n  '.join(statics), line, file, call))
        stmts.append({'fn': fname, 'sev': sev, 'cat': cat, 'file': unescape(file), 'line': line, 'fmt': unescape(fmt_src),
                      'args': [{'ty': a['ty'], 'val': a['val']} for a in args], 'writer': writer, 'clock': clock,
                      'session': 'explicit' if writer['var'] else 'default', 'family': family})
    # the run: statements in random order (some repeatedly), consumes in between
    run, body = [], []
    nexec = rng.choice([nstmts, nstmts * 2])
    for _ in range(nexec):
        si = rng.randrange(nstmts)
        st = stmts[si]
        body.append('  %s(%s);' % (st['fn'], st['writer']['var'] or ''))
        run.append(('log', si))
        if rng.random() < 0.2:
            which = rng.choice(['explicit', 'default'])
            body.append('  session.consume(out1);' if which == 'explicit' else '  binlog::consume(out2);')
            run.append(('consume', which))
    body += ['  session.consume(out1);', '  binlog::consume(out2);']
    run += [('consume', 'explicit'), ('consume', 'default')]
    src = GT.PROLOGUE.replace('#include "mser_report.hpp"', '#include <binlog/binlog.hpp>\n#include <fstream>\n#include <cstdint>\n#include <cstring>\n'
                              'namespace vr { template <typename T> T from_bits(std::uint64_t bits) { T t; std::memcpy(&t, &bits, sizeof(T)); return t; } }') + '\n'.join(g.decls) + '\n\n' + '\n'.join(funcs)
    src += '\nint main(int, char** argv)\n{\n  binlog::Session session;\n'
    src += '  session.setClockSync(binlog::ClockSync{%dULL, %dULL, %dULL, %d, %s});\n' % (sync[0], sync[1], sync[2], sync[3], c_string(sync[4]))
    src += '  binlog::default_session().setClockSync(binlog::ClockSync{%dULL, %dULL, %dULL, %d, %s});\n' % (sync[0], sync[1], sync[2], sync[3], c_string(sync[4]))
    src += '  std::ofstream out1(argv[1], std::ios::binary);\n  std::ofstream out2(argv[2], std::ios::binary);\n'
    for w in writers:
        src += '  binlog::SessionWriter %s(session, 1 << 20, %dULL, %s);\n' % (w['var'], w['id'], c_string(w['name']))
    src += '  binlog::default_thread_local_writer().setId(%dULL);\n  binlog::default_thread_local_writer().setName(%s);\n' % (default_writer['id'], c_string(default_writer['name']))
    src += '\n'.join(body) + '\n  return 0;\n}\n'
    return src, {'stmts': stmts, 'run': run, 'sync': sync, 'writers': writers, 'default_writer': default_writer}


def expected_events(desc, session):
    """the events of one session's output in the order they are consumed: per consume, the writers in creation order, each
    writer's events in program order.  Returns [(stmt index, source id)]"""
    pending = {}            # writer var -> [stmt index]
    order = []              # writer creation order
    ids = {}
    out = []
    for kind, x in desc['run']:
        if kind == 'log':
            st = desc['stmts'][x]
            if st['session'] != session:
                continue
            if x not in ids:
                ids[x] = len(ids) + 1
            key = st['writer']['var']
            if key not in pending:
                pending[key] = []
                order.append(key)
            pending[key].append(x)
        elif x == session:
            # explicit session: channels in the order the writers were constructed; default: one writer
            keys = [w['var'] for w in desc['writers']] if session == 'explicit' else [None]
            for k in keys:
                for si in pending.get(k, []):
                    out.append((si, ids[si]))
                pending[k] = []
    return out
