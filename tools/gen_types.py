"""Type-directed generator of mserialize test programs.

A `Ty` is a nested tuple:
  ('A', c)                          arithmetic with tag char c
  ('Q', elem)                       sequence
  ('T', [elems])                    tuple
  ('V', [alts])                     variant; ('N',) is the null alternative
  ('E', c, name, [(hexvalue, enumerator)])   adapted enum, underlying tag c
  ('S', name, [(fieldname, ty)])    adapted struct
Values: ('n', raw) | ('q', [vals]) | ('t', [vals]) | ('a', i, val) | ('z',)

`realise` picks, for a Ty, one of the C++ types that must have exactly this tag and encoding, and
emits the declarations it needs; `cxx_value` builds the initialiser expression for a value."""
import struct

ADAPTER_NAMES = ('std::filesystem::path', 'std::filesystem::directory_entry', 'std::chrono::system_clock::time_point',
                 'binlog::address', 'std::error_code')

ARITH = {
    'y': (1, ['bool']), 'c': (1, ['char']), 'b': (1, ['std::int8_t', 'signed char']),
    's': (2, ['std::int16_t', 'short']), 'i': (4, ['std::int32_t', 'int']),
    'l': (8, ['std::int64_t', 'long', 'long long']), 'B': (1, ['std::uint8_t', 'unsigned char', 'vr::WireByte']),
    'S': (2, ['std::uint16_t', 'unsigned short']), 'I': (4, ['std::uint32_t', 'unsigned']),
    'L': (8, ['std::uint64_t', 'unsigned long', 'unsigned long long']),
    'f': (4, ['float']), 'd': (8, ['double']), 'D': (16, ['long double']),
}
INT_TAGS = 'bsilBSIL'
# durations a system_clock time point can hold: ns per tick and width of the tick count (whatever the duration, the logged value
# is the time since the epoch in nanoseconds as a 64-bit integer)
TIME_POINT_DURATIONS = {'std::chrono::nanoseconds': (1, 64), 'std::chrono::microseconds': (1000, 64), 'std::chrono::seconds': (10 ** 9, 64),
                        'std::chrono::duration<std::int32_t>': (10 ** 9, 32),
                        'std::chrono::duration<int, std::ratio<60>>': (60 * 10 ** 9, 32),
                        'std::chrono::duration<std::int16_t, std::ratio<86400>>': (86400 * 10 ** 9, 16)}
SIGNED = 'bsilc'


class Gen:
    def __init__(self, rng, prefix):
        self.rng = rng
        self.prefix = prefix
        self.decls = []       # C++ declarations at namespace scope (structs, enums, adaptations)
        self.counter = 0
        self.struct_rt = {}
        self.struct_deser = {}
        self.const_members = {}   # struct name -> [member declared const?]
        self.force_ser_only = set()
        self.flavour = {}     # struct name -> ('getters', [is getter per field]) | ('derived', nbases) | ('template', base name, params)
        self.stats = {}

    def bump(self, k):
        self.stats[k] = self.stats.get(k, 0) + 1

    def fresh(self, base):
        self.counter += 1
        return '%s%s%d' % (self.prefix, base, self.counter)

    # ---- random types ------------------------------------------------------------------
    def rand_adapter(self):
        """the types binlog adapts itself (adapt_std*.hpp, Address.hpp): their tags are structs of this universe"""
        r = self.rng
        k = r.randrange(6)
        if k == 2 and getattr(self, 'no_time_point', False):
            k = 3
        if k == 0:
            return ('S', 'std::filesystem::path', [('str', ('Q', ('A', 'c')))])
        if k == 1:
            period = r.choice(['std::nano', 'std::micro', 'std::milli', 'std::ratio<1>', 'std::ratio<60>', 'std::ratio<3600>'])
            return ('S', 'std::chrono::duration<Rep,%s>' % period, [('count', ('A', r.choice('ilsLId')))])
        if k == 2:
            return ('S', 'std::chrono::system_clock::time_point', [('ns', ('A', 'l'))])
        if k == 3:
            return ('S', 'binlog::address', [('value', ('A', 'L'))])
        if k == 4:
            return ('S', 'std::error_code', [('message', ('Q', ('A', 'c')))])
        return ('S', 'std::filesystem::directory_entry', [('path', ('S', 'std::filesystem::path', [('str', ('Q', ('A', 'c')))]))])

    def rand_logging_struct(self):
        """the kind of struct applications log: a few members of everyday types (C strings and strings, integers, floating
        point, an enum, an optional, a small container), logged only (never deserialized), members often const"""
        r = self.rng
        pool = [('Q', ('A', 'c')), ('Q', ('A', 'c')), ('A', 'i'), ('A', 'L'), ('A', 'd'), ('A', 'y'), ('V', [('N',), ('A', 'i')]),
                ('Q', ('A', 'i')), ('T', [('A', 'i'), ('Q', ('A', 'c'))])]
        n = r.choice([1, 2, 3, 4])
        fields = [('m%d' % i, r.choice(pool) if r.random() < 0.85 else self.rand_enum()) for i in range(n)]
        name = self.fresh('Rec')
        self.force_ser_only.add(name)
        return ('S', name, fields)

    def rand_ty(self, depth=0, deser_only=False):
        r = self.rng
        if not deser_only and r.random() < 0.07:
            return self.rand_adapter()
        if not deser_only and r.random() < 0.06:
            return self.rand_logging_struct()
        if depth >= 4 or r.random() < 0.3:
            k = r.random()
            if k < 0.8:
                return ('A', r.choice('ycbsilBSILfd' if depth else 'ycbsilBSILfdD'))
            return self.rand_enum()
        k = r.randrange(10)
        if k < 3:
            if r.random() < 0.2:
                # map-like: a sequence of (key, value) pairs; a set-like sequence of sequences
                key = r.choice([('A', r.choice('ilLcsB')), ('Q', ('A', 'c'))])
                return ('Q', ('T', [key, self.rand_ty(depth + 2, deser_only)]))
            if r.random() < 0.15:
                return ('Q', ('Q', ('A', r.choice('ilcB'))))
            if r.random() < 0.15:
                return ('Q', ('A', 'c'))          # strings are the most common sequence in logging
            if r.random() < 0.08:
                return ('Q', ('A', 'y'))          # vector<bool> is the only proxy sequence
            return ('Q', self.rand_ty(depth + 1, deser_only))
        if k < 5:
            return ('T', [self.rand_ty(depth + 1, deser_only) for _ in range(r.choice([0, 1, 2, 2, 3, 4]))])
        if k < 7:
            if deser_only or r.random() < 0.7:
                return ('V', [('N',), self.rand_ty(depth + 1, deser_only)])
            # std::variant<T...>: its tag has a trailing `0` alternative (valueless_by_exception)
            return ('V', [r.choice([('N',), self.rand_ty(depth + 1)]) if i == 0 else self.rand_ty(depth + 1)
                          for i in range(r.choice([1, 2, 3]))] + [('N',)])
        if k < 9:
            return self.rand_struct(depth)
        return self.rand_enum()

    def rand_enum(self):
        r = self.rng
        # underlying types: the eight integer tags, and char / bool (enum class Side : char { Buy = 'B' }; their tags are c / y)
        c = r.choice(INT_TAGS + INT_TAGS + 'cy')
        size = ARITH[c][0]
        n = r.choice([0, 1, 2, 3, 5])
        vals = set()
        for _ in range(n):
            v = r.choice([0, 1, 2, 123, 255, r.randrange(1 << (8 * size))])
            vals.add(v % (2 if c == 'y' else 1 << (8 * size)))
        ens = []
        for v in sorted(vals):
            ens.append((hex_of(c, v), 'e%d' % len(ens)))
        return ('E', c, self.fresh('En'), ens)

    def rand_struct(self, depth):
        """adapted structs: plain (fields), with getters, derived from adapted bases (the bases are unnamed leading fields of
        the tag), class templates (the tag keeps the template's parameter names)"""
        r = self.rng
        n = r.choice([0, 1, 2, 3, 4])
        flavour = r.choice(['plain', 'plain', 'getters', 'derived', 'template'])
        fields = [('f%d' % i, self.rand_ty(depth + 1, True)) for i in range(n)]
        name = self.fresh('St')
        if flavour == 'getters' and n > 0:
            fields = [('g' + fn[1:] if i % 2 == 0 else fn, t) for i, (fn, t) in enumerate(fields)]
            self.flavour[name] = ('getters', [i % 2 == 0 for i in range(n)])
        elif flavour == 'derived' and depth < 3:
            bases = [self.rand_struct(depth + 1) for _ in range(r.choice([1, 1, 2]))]
            bases = [b for b in bases if self.flavour.get(b[1], ('plain',))[0] in ('plain',)]
            if bases:
                fields = [('', b) for b in bases] + fields
                self.flavour[name] = ('derived', len(bases))
        elif flavour == 'template' and n > 0:
            params = ['T%d' % i for i in range(n)]
            self.flavour[name + '<' + ','.join(params) + '>'] = ('template', name, params)
            name = name + '<' + ','.join(params) + '>'
        return ('S', name, fields)

    # ---- random values -----------------------------------------------------------------
    def rand_val(self, ty, depth=0):
        r = self.rng
        k = ty[0]
        if k == 'A':
            c = ty[1]
            size = ARITH[c][0]
            if c == 'y':
                return ('n', r.choice([0, 1]))
            if c == 'c':
                return ('n', r.choice([65, 97, 48, 32, 126, 0x7f, 1, 200]))
            if c in INT_TAGS:
                bits = 8 * size
                return ('n', r.choice([0, 1, 2, (1 << bits) - 1, 1 << (bits - 1), (1 << (bits - 1)) - 1,
                                       r.randrange(1 << bits), r.randrange(100)]))
            if c == 'f':
                return ('n', r.choice([0, 0x80000000, 0x3f800000, 0x7f800000, 0xff800000, 0x7fc00000, 1, 0x00800000,
                                       0x7f7fffff, struct.unpack('<I', struct.pack('<f', r.choice([0.1, 1.5, -2.75, 1e10, 3.14159, 1e-5, 123456.789])))[0],
                                       r.randrange(1 << 32)]))
            if c == 'd':
                return ('n', r.choice([0, 1 << 63, 0x3ff0000000000000, 0x7ff0000000000000, 0xfff0000000000000,
                                       0x7ff8000000000000, 1, 0x0010000000000000, 0x7fefffffffffffff,
                                       struct.unpack('<Q', struct.pack('<d', r.choice([0.1, 1.5, -2.75, 1e100, 3.141592653589793, 1e-7, 0.0001, 1e15, 1e16, 123456789012345678.0, 5e-324, 0.5, 100.0])))[0],
                                       r.randrange(1 << 64)]))
            if c == 'D':
                # x87 extended: explicit integer bit set; (mantissa, sign|exponent)
                m = r.choice([1 << 63, (1 << 63) | r.randrange(1 << 63), (1 << 64) - 1, 0xC000000000000000])
                e = r.choice([16383, 16384, 16382, 16383 + 40, 16383 - 40, 1, 32766, 16383 | 0x8000])
                if r.random() < 0.15:
                    m, e = 0, r.choice([0, 0x8000])
                return ('n', m | (e << 64))
        if k == 'E':
            size = ARITH[ty[1]][0]
            if ty[3] and r.random() < 0.7:
                h = r.choice(ty[3])[0]
                return ('n', raw_of_hex(ty[1], h))
            return ('n', r.randrange(2 if ty[1] == 'y' else 1 << (8 * size)))
        if k == 'Q':
            n = r.choice([0, 0, 1, 2, 3, 5, 33, 40] if depth < 2 else [0, 1, 2, 3])
            if ty[1] == ('A', 'y') and depth < 3 and r.random() < 0.5:
                n = r.choice([63, 64, 65, 128, 192, 256, 4096])
            elif ty[1][0] == 'A' and depth < 3 and r.random() < 0.25:
                # sequences of scalars are copied / converted in blocks: lengths around the usual block sizes
                n = r.choice([15, 16, 17, 31, 32, 63, 64, 65, 127, 128, 129, 192, 255, 256, 257, 1000, 4096])
            return ('q', [self.rand_val(ty[1], depth + 1) for _ in range(n)])
        if k == 'T':
            return ('t', [self.rand_val(t, depth + 1) for t in ty[1]])
        if k == 'S':
            return ('t', [self.rand_val(t, depth + 1) for _, t in ty[2]])
        if k == 'V':
            n = len(ty[1])
            if not (n == 2 and ty[1][0] == ('N',) and ty[1][1] != ('N',)):
                n -= 1          # the trailing `0` of std::variant (valueless_by_exception) cannot be constructed
            i = r.randrange(n)
            return ('a', i, self.rand_val(ty[1][i], depth + 1))
        if k == 'N':
            return ('z',)
        raise ValueError(ty)

    # ---- realisation in C++ --------------------------------------------------------------
    # returns a "realised type": (cxx_type_string, kind info...) as dict
    def realise(self, ty, deser=False, top=False):
        """deser=True: only deserializable realisations"""
        r = self.rng
        k = ty[0]
        if k == 'A':
            c = ty[1]
            self.bump('arith-' + c)
            choices = [x for x in ARITH[c][1] if not (x.startswith('vr::') and getattr(self, 'no_time_point', False))]   # vr:: types live in the harness header
            if c == 'B' and getattr(self, 'force_wire_byte', False):
                choices = ['vr::WireByte']
            return {'ty': ty, 'cxx': r.choice(choices), 'kind': 'arith'}
        if k == 'E':
            name = ty[2] if not deser else ty[2]
            self.declare_enum(ty)
            self.bump('enum')
            return {'ty': ty, 'cxx': name, 'kind': 'enum'}
        if k == 'Q':
            elem = self.realise(ty[1], deser)
            if elem is None:
                return None
            e = elem['cxx']
            kinds = ['vector', 'deque', 'list', 'forward_list', 'vector']
            et = ty[1]
            if et == ('A', 'c'):
                kinds += ['string', 'string']
            if et == ('A', 'y'):
                kinds += ['vector_bool', 'vector_bool', 'vector_bool'] if elem['cxx'] == 'bool' else []
            if et[0] == 'A' and et[1] in INT_TAGS + 'c':
                kinds += ['set', 'multiset']
            elif comparable_rt(elem) and not contains_map(elem):
                # associative containers of compound elements (sets of sets / vectors / tuples ...): the insert category of
                # the deserializer with a non-trivial element
                kinds += ['set', 'set', 'multiset']
            if et[0] == 'T' and len(et[1]) == 2 and elem['cxx'].startswith('std::pair') and comparable_rt(elem['elems'][0]) and not moveonly(elem) and not contains_map(elem):
                kinds += ['map', 'map', 'multimap']
            if not deser:
                kinds += ['array', 'carray' if top else 'fixedseq', 'array_view', 'sizedseq', 'nosizeseq']
                if et == ('A', 'c'):
                    kinds += ['cstr', 'cstr']
            if moveonly(elem):
                # std::deque's move constructor is not noexcept: a struct holding a deque of move-only elements cannot be
                # put into a std::vector (libstdc++ falls back to the ill-formed copy) - not a property of binlog
                kinds = [k_ for k_ in kinds if k_ != 'deque']
            kind = r.choice(kinds)
            if getattr(self, 'prefer_cstr', False) and 'cstr' in kinds:
                kind = 'cstr'
            if 'vector_bool' in kinds and r.random() < 0.6:
                kind = 'vector_bool'
            self.bump('seq-' + kind)
            if kind in ('array', 'carray', 'fixedseq', 'array_view', 'sizedseq', 'nosizeseq', 'cstr', 'map', 'multimap'):
                n = r.choice([0, 1, 2, 3, 5, 33, 40]) if kind in ('array', 'carray', 'fixedseq') else None
                if kind in ('carray', 'fixedseq') and n == 0:
                    n = 1
                if moveonly(elem) and kind != 'array':
                    kind, n = 'array', (n if n is not None else r.choice([0, 1, 2, 3]))
                cxx = {'array': 'std::array<%s, %s>' % (e, n), 'carray': '%s[%s]' % (e, n), 'fixedseq': 'vr::FixedSeq<%s, %s>' % (e, n), 'array_view': 'binlog::ArrayView<%s>' % e,
                       'sizedseq': 'vr::SizedSeq<%s>' % e, 'nosizeseq': 'vr::NoSizeSeq<%s>' % e, 'cstr': 'const char*',
                       'map': 'std::map<%s>' % e[len('std::pair<'):-1], 'multimap': 'std::multimap<%s>' % e[len('std::pair<'):-1]}[kind]
                return {'ty': ty, 'cxx': cxx, 'kind': 'seq', 'seqkind': kind, 'elem': elem, 'n': n}
            cxx = {'vector': 'std::vector<%s>', 'deque': 'std::deque<%s>', 'list': 'std::list<%s>',
                   'forward_list': 'std::forward_list<%s>', 'string': 'std::string', 'vector_bool': 'std::vector<bool>',
                   'set': 'std::set<%s>', 'multiset': 'std::multiset<%s>'}[kind]
            cxx = cxx % e if '%s' in cxx else cxx
            return {'ty': ty, 'cxx': cxx, 'kind': 'seq', 'seqkind': kind, 'elem': elem}
        if k == 'T':
            elems = [self.realise(t, deser) for t in ty[1]]
            if any(e is None for e in elems):
                return None
            if len(elems) == 2 and r.random() < 0.5:
                self.bump('pair')
                return {'ty': ty, 'cxx': 'std::pair<%s, %s>' % (elems[0]['cxx'], elems[1]['cxx']), 'kind': 'tup', 'elems': elems}
            self.bump('tuple')
            return {'ty': ty, 'cxx': 'std::tuple<%s>' % ', '.join(e['cxx'] for e in elems), 'kind': 'tup', 'elems': elems}
        if k == 'V':
            alts = ty[1]
            if len(alts) == 2 and alts[0] == ('N',) and alts[1] != ('N',):
                inner = self.realise(alts[1], deser)
                if inner is None:
                    return None
                kinds = ['optional', 'unique_ptr', 'shared_ptr']
                if not deser:
                    if inner['cxx'] != 'char':      # `const char*` is a C string for binlog, not a pointer to char
                        kinds += ['rawptr']
                kind = r.choice(kinds)
                self.bump('opt-' + kind)
                cxx = {'optional': 'std::optional<%s>', 'unique_ptr': 'std::unique_ptr<%s>', 'shared_ptr': 'std::shared_ptr<%s>',
                       'rawptr': '%s const*', 'variant': 'std::variant<std::monostate, %s>'}[kind] % inner['cxx']
                return {'ty': ty, 'cxx': cxx, 'kind': 'opt', 'optkind': kind, 'inner': inner}
            if deser:
                return None
            assert alts[-1] == ('N',), alts
            rs = [None if a == ('N',) else self.realise(a, False) for a in alts[:-1]]
            self.bump('variant')
            cxx = 'std::variant<%s>' % ', '.join('std::monostate' if x is None else x['cxx'] for x in rs)
            return {'ty': ty, 'cxx': cxx, 'kind': 'variant', 'alts': rs}
        if k == 'S' and ty[1] in ADAPTER_NAMES or (k == 'S' and ty[1].startswith('std::chrono::duration<')):
            if deser:
                return None
            return self.realise_adapter(ty)
        if k == 'S':
            fl = self.flavour.get(ty[1], ('plain',))
            if deser and fl[0] == 'getters':
                return None
            # one C++ struct per Ty name (its name is part of the tag): members are realised once,
            # with deserializable kinds, and reused by every realisation of the enclosing type
            if ty[1] in self.struct_rt:
                fields = self.struct_rt[ty[1]]
            else:
                fields = []
                deserable = fl[0] != 'getters'
                # some structs are only ever logged: their members may then be of serialize-only kinds (C strings, views,
                # arrays, raw pointers ...) and may be declared const
                ser_only = ty[1] in self.force_ser_only or ((not deser) and fl[0] in ('plain', 'derived') and r.random() < 0.3)
                for n, t in ty[2]:
                    f = None if ser_only else self.realise(t, True)
                    if f is None:
                        self.prefer_cstr = ser_only and r.random() < 0.8
                        f = self.realise(t, False)
                        self.prefer_cstr = False
                        deserable = False
                    fields.append((n, f))
                if ser_only:
                    deserable = False
                    # (a const member of a move-only type would make the struct itself neither movable nor copyable)
                    self.const_members[ty[1]] = [r.random() < 0.6 and f is not None and not moveonly(f) for _, f in fields]
                self.struct_rt[ty[1]] = fields
                self.struct_deser[ty[1]] = deserable
                if not any(f is None for _, f in fields):
                    self.declare_struct(ty, fields)
            if any(f is None for _, f in fields):
                return None
            if deser and not self.struct_deser.get(ty[1], False):
                return None
            self.bump('struct-' + fl[0])
            cxx = ty[1]
            if fl[0] == 'template':
                cxx = '%s<%s>' % (fl[1], ', '.join(f['cxx'] for _, f in fields))
            return {'ty': ty, 'cxx': cxx, 'kind': 'struct', 'fields': fields, 'flavour': fl}
        if k == 'N':
            return None
        raise ValueError(ty)

    def realise_adapter(self, ty):
        r = self.rng
        name = ty[1]
        self.bump('adapter-' + name.split('<')[0])
        if name == 'std::filesystem::path':
            return {'ty': ty, 'cxx': 'std::filesystem::path', 'kind': 'adapter', 'adapter': 'path'}
        if name == 'std::filesystem::directory_entry':
            return {'ty': ty, 'cxx': 'std::filesystem::directory_entry', 'kind': 'adapter', 'adapter': 'dirent'}
        if name.startswith('std::chrono::duration<'):
            period = name[len('std::chrono::duration<Rep,'):-1]
            rep = r.choice(ARITH[ty[2][0][1][1]][1])
            return {'ty': ty, 'cxx': 'std::chrono::duration<%s, %s>' % (rep, period), 'kind': 'adapter', 'adapter': 'duration', 'rep': rep}
        if name == 'std::chrono::system_clock::time_point':
            dur = r.choice(list(TIME_POINT_DURATIONS)[3:] if getattr(self, 'narrow_time_points', False) else list(TIME_POINT_DURATIONS))
            return {'ty': ty, 'cxx': 'std::chrono::time_point<std::chrono::system_clock, %s>' % dur, 'kind': 'adapter', 'adapter': 'time_point', 'dur': dur}
        if name == 'binlog::address':
            return {'ty': ty, 'cxx': r.choice(['binlog::address', 'void*', 'const void*']), 'kind': 'adapter', 'adapter': 'address'}
        if name == 'std::error_code':
            return {'ty': ty, 'cxx': 'std::error_code', 'kind': 'adapter', 'adapter': 'error_code'}
        raise ValueError(name)

    def realise_fixed(self, ty, vals):
        """a deserializable destination for `ty` in which some sequence nodes are std::array<E, N>;
        `vals` = the values that reach this node.  Returns (realised type, destination tokens) or None"""
        r = self.rng
        k = ty[0]
        if k in ('A', 'E', 'S'):
            rt = self.realise(ty, True)
            return None if rt is None else (rt, ty_tokens(ty))
        if k == 'Q':
            sub = self.realise_fixed(ty[1], [e for v in vals for e in v[1]])
            if sub is None:
                return None
            elem, etoks = sub
            lens = [len(v[1]) for v in vals] or [0]
            if r.random() < 0.6:
                n = r.choice(lens) if r.random() < 0.5 else max(0, r.choice(lens) + r.choice([-1, 1, 1, 2, 3]))
                n = max(n, 1)
                self.bump('seq-array')
                return ({'ty': ty, 'cxx': 'std::array<%s, %d>' % (elem['cxx'], n), 'kind': 'seq', 'seqkind': 'array', 'elem': elem}, ['R%d' % n] + etoks)
            kind = r.choice(['vector', 'deque', 'list'])
            return ({'ty': ty, 'cxx': 'std::%s<%s>' % (kind, elem['cxx']), 'kind': 'seq', 'seqkind': kind, 'elem': elem}, ['Q'] + etoks)
        if k == 'T':
            subs = [self.realise_fixed(t, [v[1][i] for v in vals]) for i, t in enumerate(ty[1])]
            if any(x is None for x in subs):
                return None
            elems = [x[0] for x in subs]
            toks = ['T%d' % len(elems)] + [t for x in subs for t in x[1]]
            if len(elems) == 2 and r.random() < 0.4:
                return ({'ty': ty, 'cxx': 'std::pair<%s, %s>' % (elems[0]['cxx'], elems[1]['cxx']), 'kind': 'tup', 'elems': elems}, toks)
            return ({'ty': ty, 'cxx': 'std::tuple<%s>' % ', '.join(e['cxx'] for e in elems), 'kind': 'tup', 'elems': elems}, toks)
        if k == 'V':
            alts = ty[1]
            if not (len(alts) == 2 and alts[0] == ('N',) and alts[1] != ('N',)):
                return None
            sub = self.realise_fixed(alts[1], [v[2] for v in vals if v[1] == 1])
            if sub is None:
                return None
            kind = r.choice(['optional', 'unique_ptr', 'shared_ptr'])
            cxx = {'optional': 'std::optional<%s>', 'unique_ptr': 'std::unique_ptr<%s>', 'shared_ptr': 'std::shared_ptr<%s>'}[kind] % sub[0]['cxx']
            return ({'ty': ty, 'cxx': cxx, 'kind': 'opt', 'optkind': kind, 'inner': sub[0]}, ['V2', 'N'] + sub[1])
        return None

    def declare_enum(self, ty):
        name = ty[2]
        if any(d.startswith('enum class %s ' % name) for d in self.decls):
            return
        c = ty[1]
        under = ARITH[c][1][0]
        body = ', '.join('%s = %s' % (n, cxx_int(c, raw_of_hex(c, h))) for h, n in ty[3])
        self.decls.append('enum class %s : %s { %s };' % (name, under, body))
        self.decls.append('MSERIALIZE_MAKE_ENUM_TAG(%s)' % ', '.join([name] + [n for _, n in ty[3]]))

    def declare_struct(self, ty, fields):
        name = ty[1]
        fl = self.flavour.get(name, ('plain',))
        cname = fl[1] if fl[0] == 'template' else name
        if any(d.startswith('struct %s ' % cname) or d.startswith('template <') and ('struct %s ' % cname) in d for d in self.decls):
            return
        names = [n for n, _ in fields]
        if fl[0] == 'getters':
            # private members, read through getters where the tag says so; a constructor to build values
            priv, pub, ctor_args, ctor_init = [], [], [], []
            for (n, f), isg in zip(fields, fl[1]):
                if isg:
                    priv.append('%s m_%s;' % (f['cxx'], n))
                    pub.append('%s const& %s() const { return m_%s; }' % (f['cxx'], n, n))
                    ctor_init.append('m_%s(std::move(a_%s))' % (n, n))
                else:
                    pub.append('%s %s;' % (f['cxx'], n))
                    ctor_init.append('%s(std::move(a_%s))' % (n, n))
                ctor_args.append('%s a_%s' % (f['cxx'], n))
            # members are initialised in declaration order: declare in field order regardless of access
            body = []
            for (n, f), isg in zip(fields, fl[1]):
                body.append(('private: %s m_%s; public: %s const& %s() const { return m_%s; }' % (f['cxx'], n, f['cxx'], n, n)) if isg
                            else ('public: %s %s;' % (f['cxx'], n)))
            self.decls.append('struct %s { %s public: %s(%s) : %s {} };' % (name, ' '.join(body), name, ', '.join(ctor_args), ', '.join(ctor_init)))
            args = ', '.join([name] + names)
            self.decls.append('MSERIALIZE_MAKE_STRUCT_SERIALIZABLE(%s)' % args)
            self.decls.append('MSERIALIZE_MAKE_STRUCT_TAG(%s)' % args)
            return
        if fl[0] == 'derived':
            nb = fl[1]
            bases = [f['cxx'] for _, f in fields[:nb]]
            cm = self.const_members.get(name, [False] * len(fields))
            members = ['%s%s %s;' % (f['cxx'], ' const' if c and f['kind'] != 'seq' or (c and f.get('seqkind') != 'carray') else '', n) for (n, f), c in zip(fields[nb:], cm[nb:])]
            self.decls.append('struct %s : %s { %s };' % (name, ', '.join(bases), ' '.join(members)))
            args = ', '.join([name, '(' + ', '.join(bases) + ')'] + names[nb:])
            self.decls.append('MSERIALIZE_MAKE_DERIVED_STRUCT_SERIALIZABLE(%s)' % args)
            if self.struct_deser.get(name, False):
                self.decls.append('MSERIALIZE_MAKE_DERIVED_STRUCT_DESERIALIZABLE(%s)' % args)
            self.decls.append('MSERIALIZE_MAKE_DERIVED_STRUCT_TAG(%s)' % args)
            return
        if fl[0] == 'template':
            params = fl[2]
            members = ['%s %s;' % (p_, n) for p_, n in zip(params, names)]
            tparams = '(' + ', '.join('typename ' + p_ for p_ in params) + ')'
            tname = '(%s<%s>)' % (cname, ','.join(params))
            self.decls.append('template <%s> struct %s { %s };' % (', '.join('typename ' + p_ for p_ in params), cname, ' '.join(members)))
            args = ', '.join([tparams, tname] + names)
            self.decls.append('MSERIALIZE_MAKE_TEMPLATE_SERIALIZABLE(%s)' % args)
            if self.struct_deser.get(name, False):
                self.decls.append('MSERIALIZE_MAKE_TEMPLATE_DESERIALIZABLE(%s)' % args)
            self.decls.append('MSERIALIZE_MAKE_TEMPLATE_TAG(%s)' % args)
            return
        members = []
        cm = self.const_members.get(name, [False] * len(fields))
        for (n, f), c in zip(fields, cm):
            members.append('%s%s %s;' % (f['cxx'], ' const' if c else '', n))
        self.decls.append('struct %s { %s };' % (name, ' '.join(members)))
        args = ', '.join([name] + names)
        self.decls.append('MSERIALIZE_MAKE_STRUCT_SERIALIZABLE(%s)' % args)
        if self.struct_deser.get(name, False):
            self.decls.append('MSERIALIZE_MAKE_STRUCT_DESERIALIZABLE(%s)' % args)
        self.decls.append('MSERIALIZE_MAKE_STRUCT_TAG(%s)' % args)

    # ---- C++ value expressions ---------------------------------------------------------------
    def cxx_value(self, rt, val, statics):
        k = rt['kind']
        ty = rt['ty']
        if k == 'arith':
            return cxx_arith(ty[1], val[1], rt['cxx'])
        if k == 'enum':
            return 'static_cast<%s>(%s)' % (rt['cxx'], cxx_int(ty[1], val[1]))
        if k == 'adapter':
            a = rt['adapter']
            if a == 'path':
                return 'std::filesystem::path(std::string{%s})' % ', '.join(cxx_arith('c', c[1], 'char') for c in val[1][0][1])
            if a == 'dirent':
                return 'std::filesystem::directory_entry(std::filesystem::path(std::string{%s}))' % ', '.join(cxx_arith('c', c[1], 'char') for c in val[1][0][1][0][1])
            if a == 'duration':
                return '%s(%s)' % (rt['cxx'], cxx_arith(ty[2][0][1][1], val[1][0][1], rt['rep']))
            if a == 'time_point':
                return '%s(std::chrono::duration_cast<%s>(std::chrono::nanoseconds(%s)))' % (rt['cxx'], rt['dur'], cxx_int('l', val[1][0][1]))
            if a == 'address':
                if rt['cxx'] == 'binlog::address':
                    return 'binlog::address(reinterpret_cast<const void*>(std::uintptr_t(%dULL)))' % val[1][0][1]
                return 'reinterpret_cast<%s>(std::uintptr_t(%dULL))' % (rt['cxx'], val[1][0][1])
            if a == 'error_code':
                return 'std::error_code(%d, std::generic_category())' % errno_of_message(bytes(c[1] for c in val[1][0][1]))
            raise ValueError(a)
        if k == 'seq' and rt['seqkind'] in ('array', 'carray', 'fixedseq', 'array_view', 'sizedseq', 'nosizeseq', 'cstr', 'map', 'multimap'):
            elems = [self.cxx_value(rt['elem'], v, statics) for v in val[1]]
            sk = rt['seqkind']
            e = rt['elem']['cxx']
            if sk == 'array':
                return '%s{{%s}}' % (rt['cxx'], ', '.join(elems)) if elems else '%s{}' % rt['cxx']
            if sk == 'carray':
                return '{%s}' % ', '.join(elems)
            if sk == 'fixedseq':
                return '%s{{%s}}' % (rt['cxx'], ', '.join(elems))
            if sk in ('sizedseq', 'nosizeseq'):
                return '%s{{%s}}' % (rt['cxx'], ', '.join(elems)) if elems else '%s{}' % rt['cxx']
            if sk == 'array_view' and not elems:
                return 'binlog::ArrayView<%s>(static_cast<%s const*>(nullptr), static_cast<%s const*>(nullptr))' % (e, e, e)
            if sk == 'array_view':
                name = 'vr_static_%d' % len(statics)
                statics.append('static %s const %s[%d] = {%s};' % (e, name, max(1, len(elems)), ', '.join(elems)))
                return 'binlog::array_view(%s, %d)' % (name, len(elems))
            if sk == 'cstr':
                if val == NULL_CSTR_VAL:
                    return 'static_cast<const char*>(nullptr)'
                name = 'vr_static_%d' % len(statics)
                statics.append('static const char %s[] = {%s};' % (name, ', '.join(elems + ["'\\0'"])))
                return 'static_cast<const char*>(%s)' % name
            return '%s{%s}' % (rt['cxx'], ', '.join(elems))
        if k == 'seq':
            elems = [self.cxx_value(rt['elem'], v, statics) for v in val[1]]
            if rt['seqkind'] == 'string':
                return 'std::string{%s}' % ', '.join(elems) if elems else 'std::string{}'
            if moveonly(rt['elem']):
                # move-only elements: build through a helper
                return 'vr_make<%s>(%s)' % (rt['cxx'], ', '.join(elems))
            return '%s{%s}' % (rt['cxx'], ', '.join(elems))
        if k == 'tup':
            elems = [self.cxx_value(e, v, statics) for e, v in zip(rt['elems'], val[1])]
            return '%s(%s)' % (rt['cxx'], ', '.join(elems)) if elems else '%s{}' % rt['cxx']
        if k == 'opt':
            ok = rt['optkind']
            if val[1] == 0:
                return {'optional': '%s{}' % rt['cxx'], 'unique_ptr': '%s{}' % rt['cxx'], 'shared_ptr': '%s{}' % rt['cxx'],
                        'rawptr': 'static_cast<%s>(nullptr)' % rt['cxx'], 'variant': '%s{std::monostate{}}' % rt['cxx']}[ok]
            inner = self.cxx_value(rt['inner'], val[2], statics)
            it = rt['inner']['cxx']
            if ok == 'optional':
                return '%s{%s}' % (rt['cxx'], inner)
            if ok == 'unique_ptr':
                return 'std::make_unique<%s>(%s)' % (it, inner)
            if ok == 'shared_ptr':
                return 'std::make_shared<%s>(%s)' % (it, inner)
            if ok == 'rawptr':
                name = 'vr_static_%d' % len(statics)
                statics.append('static %s const %s = %s;' % (it, name, inner))
                return 'static_cast<%s>(&%s)' % (rt['cxx'], name)
            return '%s{std::in_place_index<1>, %s}' % (rt['cxx'], inner)
        if k == 'variant':
            i = val[1]
            alt = rt['alts'][i]
            if alt is None:
                return '%s{std::in_place_index<%d>}' % (rt['cxx'], i)
            return '%s{std::in_place_index<%d>, %s}' % (rt['cxx'], i, self.cxx_value(alt, val[2], statics))
        if k == 'struct':
            elems = [self.cxx_value(f, v, statics) for (_, f), v in zip(rt['fields'], val[1])]
            if rt.get('flavour', ('plain',))[0] == 'getters':
                return '%s(%s)' % (rt['cxx'], ', '.join(elems))
            return '%s{%s}' % (rt['cxx'], ', '.join(elems))
        raise ValueError(k)


def contains_map(rt):
    """mserialize's insert-category deserializer rebuilds the element type with deep_remove_const, which mangles the
    allocator of a std::map nested in it (does not compile): such destinations are not deserializable types"""
    if rt is None:
        return False
    k = rt['kind']
    if k == 'seq':
        return rt['seqkind'] in ('map', 'multimap') or contains_map(rt['elem'])
    if k == 'tup':
        return any(contains_map(e) for e in rt['elems'])
    if k == 'opt':
        return contains_map(rt['inner'])
    if k == 'variant':
        return any(contains_map(a) for a in rt['alts'])
    if k == 'struct':
        return any(contains_map(f) for _, f in rt['fields'])
    return False


def comparable_rt(rt):
    """does the C++ realisation have a strict weak operator< that python can mirror (no floats: NaN)"""
    k = rt['kind']
    if k == 'arith':
        return rt['ty'][1] in INT_TAGS + 'cy'
    if k == 'seq':
        return rt['seqkind'] in ('vector', 'deque', 'list', 'forward_list', 'string', 'set', 'multiset', 'vector_bool', 'map', 'multimap') and comparable_rt(rt['elem'])
    if k == 'tup':
        return all(comparable_rt(e) for e in rt['elems'])
    return False


def order_key(rt, val):
    """a python key that orders canonical values like operator< orders the C++ objects"""
    k = rt['kind']
    if k == 'arith':
        c = rt['ty'][1]
        size = ARITH[c][0]
        raw = val[1]
        return raw - (1 << (8 * size)) if (c in SIGNED and raw >= 1 << (8 * size - 1)) else raw
    if k == 'seq':
        if rt['seqkind'] == 'string':
            return tuple(v[1] for v in val[1])       # char_traits<char>::lt compares as unsigned char
        return tuple(order_key(rt['elem'], v) for v in val[1])
    if k == 'tup':
        return tuple(order_key(e, v) for e, v in zip(rt['elems'], val[1]))
    raise ValueError(k)


NULL_CSTR_VAL = ('q', [('n', c) for c in b'{null}'])
ERRNO_MESSAGES = None


def errno_messages():
    global ERRNO_MESSAGES
    if ERRNO_MESSAGES is None:
        import os
        ERRNO_MESSAGES = {}
        for n in (0, 1, 2, 5, 9, 11, 12, 13, 17, 22, 28, 32, 110, 111):
            ERRNO_MESSAGES.setdefault(os.strerror(n).encode(), n)
    return ERRNO_MESSAGES


def errno_of_message(msg):
    return errno_messages()[msg]


INSERT_KINDS = ('set', 'multiset', 'map', 'multimap', 'unordered_set', 'unordered_multiset', 'unordered_map', 'unordered_multimap')


def overwrites(rt):
    """does deserializing into a USED object of this type leave exactly the new value?  Insert-category containers only add
    (by design), everything else is assigned, resized or re-created; an optional / smart pointer gets a fresh object, so
    whatever is below it starts empty"""
    k = rt['kind']
    if k == 'seq':
        return rt['seqkind'] not in INSERT_KINDS and overwrites(rt['elem'])
    if k == 'tup':
        return all(overwrites(e) for e in rt['elems'])
    if k == 'struct':
        return all(overwrites(f) for _, f in rt['fields'])
    if k == 'opt':
        return True
    return k in ('arith', 'enum', 'adapter')


def has_node(rt, kinds):
    k = rt['kind']
    if k in kinds:
        return True
    if k == 'seq':
        return has_node(rt['elem'], kinds)
    if k == 'tup':
        return any(has_node(e, kinds) for e in rt['elems'])
    if k == 'struct':
        return any(has_node(f, kinds) for _, f in rt['fields'])
    if k == 'opt':
        return has_node(rt['inner'], kinds)
    return False


def moveonly(rt):
    k = rt['kind']
    if k in ('arith', 'enum', 'adapter'):
        return False
    if k == 'seq':
        return moveonly(rt['elem'])
    if k == 'tup':
        return any(moveonly(e) for e in rt['elems'])
    if k == 'opt':
        return rt['optkind'] == 'unique_ptr' or moveonly(rt['inner'])
    if k == 'variant':
        return any(a is not None and moveonly(a) for a in rt['alts'])
    if k == 'struct':
        return any(moveonly(f) for _, f in rt['fields'])
    return False


def hex_of(c, raw):
    """mserialize integer_to_hex of the value with object bytes `raw` of arithmetic tag c"""
    size = ARITH[c][0]
    if c in SIGNED and raw >= 1 << (8 * size - 1):
        return '-%X' % ((1 << (8 * size)) - raw)
    return '%X' % raw


def raw_of_hex(c, h):
    size = ARITH[c][0]
    if h.startswith('-'):
        return (1 << (8 * size)) - int(h[1:], 16)
    return int(h, 16)


def cxx_int(c, raw):
    size = ARITH[c][0]
    t = ARITH[c][1][0]
    if c in SIGNED and raw >= 1 << (8 * size - 1):
        v = raw - (1 << (8 * size))
        if v == -(1 << 63):
            return 'std::numeric_limits<std::int64_t>::min()'
        return '%s(%dLL)' % (t, v)
    return '%s(%dULL)' % (t, raw)


def cxx_arith(c, raw, cxx):
    if c == 'y':
        return 'true' if raw else 'false'
    if c == 'c':
        return 'char(%d)' % (raw if raw < 128 else raw - 256)
    if c in INT_TAGS:
        return 'static_cast<%s>(%s)' % (cxx, cxx_int(c, raw))
    if c == 'f':
        return 'vr::from_bits<float>(0x%xULL)' % raw
    if c == 'd':
        return 'vr::from_bits<double>(0x%xULL)' % raw
    if c == 'D':
        return 'vr::ld_from_bits(0x%xULL, 0x%x)' % (raw & ((1 << 64) - 1), (raw >> 64) & 0xffff)
    raise ValueError(c)


# ---- line protocol for the Lean driver ---------------------------------------------------------

def ty_tokens(ty):
    k = ty[0]
    if k == 'A': return ['A' + ty[1]]
    if k == 'Q': return ['Q'] + ty_tokens(ty[1])
    if k == 'T': return ['T%d' % len(ty[1])] + [t for e in ty[1] for t in ty_tokens(e)]
    if k == 'V': return ['V%d' % len(ty[1])] + [t for e in ty[1] for t in ty_tokens(e)]
    if k == 'N': return ['N']
    if k == 'E':
        return ['E%s:%s:%d' % (ty[1], ty[2].encode().hex(), len(ty[3]))] + ['%s:%s' % (h.encode().hex(), n.encode().hex()) for h, n in ty[3]]
    if k == 'S':
        out = ['S%s:%d' % (ty[1].encode().hex(), len(ty[2]))]
        for n, t in ty[2]:
            out += ['F' + n.encode().hex()] + ty_tokens(t)
        return out
    raise ValueError(ty)


def val_tokens(v):
    k = v[0]
    if k == 'n': return ['n%d' % v[1]]
    if k == 'q': return ['q%d' % len(v[1])] + [t for e in v[1] for t in val_tokens(e)]
    if k == 't': return ['t%d' % len(v[1])] + [t for e in v[1] for t in val_tokens(e)]
    if k == 'a': return ['a%d' % v[1]] + val_tokens(v[2])
    if k == 'z': return ['z']
    raise ValueError(v)


def canon_value_for(rt, val):
    """sets/multisets must be given sorted (and unique for set): canonicalise the value to what the
    container will hold, so that the model and the program talk about the same value"""
    k = rt['kind']
    if k == 'adapter':
        return canon_adapter_value(rt, val)
    if k == 'seq':
        elems = [canon_value_for(rt['elem'], v) for v in val[1]]
        sk = rt['seqkind']
        if sk in ('array', 'carray', 'fixedseq'):
            # fixed size: pad by repeating / cut (an empty value of a non-empty array gets value-initialised elements)
            n = rt['n']
            while len(elems) < n:
                elems.append(elems[len(elems) % max(1, len(elems))] if elems and not moveonly(rt['elem']) else canon_value_for(rt['elem'], zero_value(rt['elem']['ty'])))
            elems = elems[:n]
            return ('q', elems)
        if sk == 'cstr':
            elems = [e for e in elems if e[1] != 0]
            if not elems and len(val[1]) > 2:
                return NULL_CSTR_VAL          # a null `const char*` is logged as "{null}"
            return ('q', elems)
        if sk in ('map', 'multimap'):
            krt = rt['elem']['elems'][0]
            def mkey(e):
                return order_key(krt, e[1][0])
            out = []
            for e in elems:      # std::map keeps the FIRST value of a key (initializer-list insertion), multimap keeps all, stable
                if sk == 'map' and any(mkey(x) == mkey(e) for x in out):
                    continue
                out.append(e)
            return ('q', sorted(out, key=mkey))
        if rt['seqkind'] in ('set', 'multiset'):
            def key(e):
                return order_key(rt['elem'], e)
            elems = sorted(elems, key=key)
            if rt['seqkind'] == 'set':
                out = []
                for e in elems:
                    if not out or key(out[-1]) != key(e):
                        out.append(e)
                elems = out
        return ('q', elems)
    if k == 'tup':
        return ('t', [canon_value_for(e, v) for e, v in zip(rt['elems'], val[1])])
    if k == 'struct':
        return ('t', [canon_value_for(f, v) for (_, f), v in zip(rt['fields'], val[1])])
    if k == 'opt':
        return val if val[1] == 0 else ('a', 1, canon_value_for(rt['inner'], val[2]))
    if k == 'variant':
        alt = rt['alts'][val[1]]
        return val if alt is None else ('a', val[1], canon_value_for(alt, val[2]))
    return val


def zero_value(ty):
    k = ty[0]
    if k in ('A', 'E'): return ('n', 0)
    if k == 'Q': return ('q', [])
    if k == 'T': return ('t', [zero_value(t) for t in ty[1]])
    if k == 'S': return ('t', [zero_value(t) for _, t in ty[2]])
    if k == 'V': return ('a', 0, zero_value(ty[1][0]))
    return ('z',)


PATH_CHARS = b'/ab._-x/ /'


def canon_adapter_value(rt, val):
    """values an adapter type can actually hold, derived deterministically from the random value"""
    a = rt['adapter']
    if a in ('path', 'dirent'):
        inner = val[1][0] if a == 'path' else val[1][0][1][0]
        raw = [c[1] for c in inner[1]]
        # no NUL; biased to separators incl. consecutive ones (native spelling must be kept verbatim)
        chars = [PATH_CHARS[x % len(PATH_CHARS)] for x in raw]
        if a == 'dirent':
            # constructing a directory_entry asks the file system about the path: one beyond PATH_MAX / NAME_MAX makes the
            # constructor throw (ENAMETOOLONG) before anything is serialized
            chars = chars[:200]
        if len(chars) >= 3 and raw[0] % 3 == 0:
            chars[1] = chars[2] = ord('/')
        pv = ('t', [('q', [('n', c) for c in chars])])
        return pv if a == 'path' else ('t', [pv])
    if a == 'duration':
        return val
    if a == 'time_point':
        ns = val[1][0][1]
        sns = ns - (1 << 64) if ns >= 1 << 63 else ns
        div, bits = TIME_POINT_DURATIONS[rt['dur']]
        # the time point holds its own duration type: what is logged is that duration converted back to ns (truncation toward zero)
        q = abs(sns) // div * (1 if sns >= 0 else -1)
        if not (-(1 << (bits - 1)) <= q < (1 << (bits - 1))):
            q = q % 1000                     # keep the count inside the representation type of the duration
        sns = q * div
        if not (-(1 << 63) <= sns < (1 << 63)):
            sns = 0
        return ('t', [('n', sns & ((1 << 64) - 1))])
    if a == 'address':
        return val
    if a == 'error_code':
        msgs = sorted(errno_messages().keys())
        raw = [c[1] for c in val[1][0][1]]
        m = msgs[(sum(raw) + len(raw)) % len(msgs)]
        return ('t', [('q', [('n', c) for c in m])])
    raise ValueError(a)


PROLOGUE = r'''
#include "mser_report.hpp"
#include <mserialize/make_struct_serializable.hpp>
#include <mserialize/make_struct_deserializable.hpp>
#include <mserialize/make_struct_tag.hpp>
#include <mserialize/make_enum_tag.hpp>
#include <mserialize/make_derived_struct_serializable.hpp>
#include <mserialize/make_derived_struct_deserializable.hpp>
#include <mserialize/make_derived_struct_tag.hpp>
#include <mserialize/make_template_serializable.hpp>
#include <mserialize/make_template_deserializable.hpp>
#include <mserialize/make_template_tag.hpp>
#include <binlog/adapt_stdvariant.hpp>
#include <binlog/adapt_stdoptional.hpp>
#include <binlog/adapt_stdduration.hpp>
#include <binlog/adapt_stdtimepoint.hpp>
#include <binlog/adapt_stderrorcode.hpp>
#include <binlog/adapt_stdfilesystem.hpp>
#include <binlog/Address.hpp>
#include <binlog/ArrayView.hpp>
#include <array>
#include <chrono>
#include <filesystem>
#include <system_error>
#include <iterator>
#include <deque>
#include <forward_list>
#include <limits>
#include <list>
#include <map>
#include <memory>
#include <optional>
#include <set>
#include <string>
#include <tuple>
#include <utility>
#include <variant>
#include <vector>

namespace vr {
// a fixed-size user container
template <typename T, std::size_t N> struct FixedSeq { T a[N]; const T* begin() const { return a; } const T* end() const { return a + N; } std::size_t size() const { return N; } };
// user containers: with size() (a sized, non-contiguous range) and without (size by std::distance)
template <typename T> struct SizedSeq { std::deque<T> d; auto begin() const { return d.begin(); } auto end() const { return d.end(); } std::size_t size() const { return d.size(); } };
template <typename T> struct NoSizeSeq { std::forward_list<T> d; auto begin() const { return d.begin(); } auto end() const { return d.end(); } };
}

template <typename C, typename... E>
C vr_make(E&&... e)
{
  using V = typename C::value_type;
  V arr[] = {std::forward<E>(e)...};
  return C(std::make_move_iterator(std::begin(arr)), std::make_move_iterator(std::end(arr)));
}
template <typename C>
C vr_make() { return C{}; }
'''


def make_program(rng, prefix, ncases):
    """returns (cpp source, list of (ty, val) per case, stats)"""
    g = Gen(rng, prefix)
    cases = []
    body = []
    for i in range(ncases):
        g.force_wire_byte = False
        if i == 2:
            # ... one of them of the user type with its own codec (an enum that travels as one byte)
            ty = rng.choice([('Q', ('A', 'B')), ('Q', ('Q', ('A', 'B'))), ('T', [('Q', ('A', 'B')), ('A', 'B')])])
            g.force_wire_byte = True
        elif i < 3:
            # every program starts with plain sequences of scalars (block-wise copied / converted, proxy sequences)
            ty = ('Q', ('A', rng.choice('yycilBLd')))
        elif i == 3:
            # ... and has one time point whose duration counts in fewer than 64 bits (what is logged is always 64-bit nanoseconds)
            tp = ('S', 'std::chrono::system_clock::time_point', [('ns', ('A', 'l'))])
            ty = rng.choice([tp, ('Q', tp), ('T', [tp, ('A', 'i')]), ('V', [('N',), tp])])
        else:
            ty = g.rand_ty()
        while ty[0] == 'N':
            ty = g.rand_ty()
        g.narrow_time_points = (i == 3)
        rt = g.realise(ty, top=True)
        val = canon_value_for(rt, g.rand_val(ty))
        statics = []
        expr = g.cxx_value(rt, val, statics)
        # a deserializable realisation of the same type (RT), and a second, independent one (X)
        drt = g.realise(ty, deser=True)
        xrt = g.realise(ty, deser=True)
        RT = drt['cxx'] if drt else 'void'
        X = xrt['cxx'] if xrt else 'void'
        fx = g.realise_fixed(ty, [val]) if has_seq(ty) else None
        F = fx[0]['cxx'] if fx else 'void'
        # a second value of the same type, deserialized into the destination that already holds the first one
        # (bit 0: the destination type overwrites, see `overwrites`; bit 1: it can be copied)
        ag, val2, second = 0, None, ''
        if drt and overwrites(drt) and (has_node(drt, ('opt',)) or (has_node(drt, ('seq',)) and rng.random() < 0.3)):
            ag = 1 | (0 if moveonly(drt) else 2)
            val2 = canon_value_for(rt, g.rand_val(ty))
            second = '\n  const VT w = %s;' % g.cxx_value(rt, val2, statics)
        body.append('static void case_%d() {\n  %s\n  using VT = %s;\n  const VT v = %s;%s\n  vr::report<VT, %s, %s, %s, %d>(%d, v%s);\n}' % (
            i, '\n  '.join(statics), rt['cxx'], expr, second, RT, X, F, ag, i, ', &w' if ag else ''))
        cases.append({'ty': ty, 'val': val, 'cxx': rt['cxx'], 'rt': drt, 'xt': xrt, 'val2': val2, 'ag': ag,
                      'fx': None if fx is None else {'cxx': F, 'dst': fx[1], 'fits': py_fits(fx[1], val)}})
    src = PROLOGUE + '\n'.join(g.decls) + '\n\n' + '\n'.join(body) + '\n\nint main() {\n  vr::probe_input_range();\n' + \
        ''.join('  case_%d();\n' % i for i in range(ncases)) + '  return 0;\n}\n'
    return src, cases, g.stats


def has_seq(ty):
    k = ty[0]
    if k == 'Q': return True
    if k in ('T', 'V'): return any(has_seq(t) for t in ty[1])
    return False


def py_fits(dst_tokens, val):
    """independent statement of `fits`: walks the destination tokens along the value"""
    toks = list(dst_tokens)

    def skip():
        t = toks.pop(0)
        c = t[0]
        if c in 'QR': skip()
        elif c in 'TV':
            for _ in range(int(t[1:])): skip()
        elif c == 'E':
            for _ in range(int(t.split(':')[2])): toks.pop(0)
        elif c == 'S':
            for _ in range(int(t.split(':')[1])):
                toks.pop(0); skip()

    def go(vals):
        """consumes the tokens of one node; vals = the values reaching it; returns whether all fit"""
        t = toks.pop(0)
        c = t[0]
        if c in 'QR':
            ok = all(len(v[1]) == int(t[1:]) for v in vals) if c == 'R' else True
            return go([e for v in vals for e in v[1]]) and ok
        if c == 'T':
            ok = True
            for i in range(int(t[1:])):
                ok = go([v[1][i] for v in vals]) and ok
            return ok
        if c == 'V':
            ok = True
            for i in range(int(t[1:])):
                ok = go([v[2] for v in vals if v[1] == i]) and ok
            return ok
        toks.insert(0, t)
        skip()
        return True
    return go([val])


def py_encode(ty, val):
    """independent (python) statement of the documented wire format"""
    k = ty[0]
    if k in ('A', 'E'):
        size = ARITH[ty[1]][0]
        return val[1].to_bytes(size, 'little')
    if k == 'Q':
        return struct.pack('<I', len(val[1])) + b''.join(py_encode(ty[1], v) for v in val[1])
    if k == 'T':
        return b''.join(py_encode(t, v) for t, v in zip(ty[1], val[1]))
    if k == 'S':
        return b''.join(py_encode(t, v) for (_, t), v in zip(ty[2], val[1]))
    if k == 'V':
        return bytes([val[1]]) + py_encode(ty[1][val[1]], val[2])
    if k == 'N':
        return b''
    raise ValueError(ty)


def py_tag(ty):
    k = ty[0]
    if k == 'A': return ty[1]
    if k == 'Q': return '[' + py_tag(ty[1])
    if k == 'T': return '(' + ''.join(py_tag(t) for t in ty[1]) + ')'
    if k == 'V': return '<' + ''.join(py_tag(t) for t in ty[1]) + '>'
    if k == 'N': return '0'
    if k == 'E': return '/' + ty[1] + '`' + ty[2] + "'" + ''.join(h + '`' + n + "'" for h, n in ty[3]) + '\\'
    if k == 'S': return '{' + ty[1] + ''.join('`' + n + "'" + py_tag(t) for n, t in ty[2]) + '}'
    raise ValueError(ty)
