"""C01 — SPSC queue."""
import random
import hashlib
from checklib import *
from checks_reader import parse_kv, finish_proof, cases_count, report_corr

C01_THEOREMS = ['BinlogVerif.C01.c01_race_free', 'BinlogVerif.C01.c01_fifo_exactly_once',
                'BinlogVerif.C01.c01_pieces_whole_commits', 'BinlogVerif.C01.c01_window_disjoint',
                'BinlogVerif.C01.c01_failed_begin_loses_nothing',
                'BinlogVerif.C01.c01_poll_is_commit_prefix', 'BinlogVerif.C01.c01_fresh_poll_gets_all',
                'BinlogVerif.C01.c01_fresh_poll_enabled', 'BinlogVerif.C01.c01_release_is_commit_prefix',
                'BinlogVerif.Generated.queueOrders_sufficient', 'BinlogVerif.Generated.queueAccesses_match', 'BinlogVerif.Generated.queuePlainAccesses_match',
                'BinlogVerif.Generated.code_race_free', 'BinlogVerif.Generated.code_fifo']


def gen_queue_script(rng):
    cap = rng.choice([0, 1, 2, 3, 4, 5, 7, 8, 16, 31, 64])
    nops = rng.choice([5, 12, 30, 80])
    ops = []
    nW, nR = 0, 0            # number of W / R stores so far = index of the newest message
    for _ in range(nops):
        k = rng.randrange(10)
        if k < 3:
            n = rng.choice([0, 1, 2, cap - 1 if cap else 0, cap, cap + 1, rng.randrange(cap + 2), max(0, cap // 2)])
            ops.append('b%d:%d' % (n, nR))
        elif k < 6:
            ops.append('w%d' % rng.choice([0, 1, 2, 3, rng.randrange(cap + 2)]))
        elif k < 8:
            ops.append('e'); nW += 1
        elif k == 8:
            if rng.random() < 0.3:
                ops.append('n')                  # a new QueueReader object, as Session::consume creates one per poll
            ops.append('r%d' % nW)
        else:
            ops.append('d'); nR += 1
    return 'queue %d %s' % (cap, ' '.join(ops))


def gen_queue_script_events(rng):
    """the usage pattern of SessionWriter: beginWrite(n); write n bytes in pieces; endWrite; polls in between"""
    cap = rng.choice([4, 8, 12, 16, 24, 40])
    ops = []
    nW, nR = 0, 0
    for _ in range(rng.choice([4, 10, 25, 60])):
        if rng.random() < 0.65:
            n = rng.choice([1, 2, 3, cap // 2, cap - 1, cap, rng.randrange(1, cap + 1)])
            ops.append('b%d:%d' % (n, nR))
            left = n
            while left > 0:
                k = rng.randrange(1, left + 1)
                ops.append('w%d' % k)
                left -= k
            ops.append('e'); nW += 1
        else:
            if rng.random() < 0.5:
                ops.append('n')
            ops.append('r%d' % nW)
            ops.append('d'); nR += 1
    return 'queue %d %s' % (cap, ' '.join(ops))


def monitor_queue(line, out):
    """FIFO / exactly-once / whole-commit monitor on the implementation's own output:
    replays the script, tracking commits, and checks every batch piece."""
    toks = line.split(' ')[2:]
    segs = out.rsplit(' race=', 1)[0].split(';')
    if len(segs) != len(toks):
        return 'output has %d segments for %d ops' % (len(segs), len(toks))
    next_tok = 1
    pending = []
    commits = []          # list of lists of byte values
    delivered = 0         # number of commits... tracked in bytes
    committed_bytes = []
    delivered_bytes = 0
    last_batch = None
    boundaries = {0}
    for t, seg in zip(toks, segs):
        if seg == 'disabled':
            continue
        c = t[0]
        if c == 'n':
            continue
        if c == 'b':
            kv = parse_kv(seg)
            n = int(t[1:].split(':')[0])
            if kv.get('ok') == '1' and int(kv['cap']) < n:
                return 'beginWrite(%d) returned true with write capacity %s' % (n, kv['cap'])
        elif c == 'w':
            k = int(t[1:])
            pending += [(next_tok + i) % 256 for i in range(k)]
            next_tok += k
        elif c == 'e':
            committed_bytes += pending
            boundaries.add(len(committed_bytes))
            pending = []
        elif c == 'r':
            kv = parse_kv(seg)
            p1, p2 = bytes.fromhex(kv.get('p1', '')), bytes.fromhex(kv.get('p2', ''))
            batch = list(p1 + p2)
            want = committed_bytes[delivered_bytes:delivered_bytes + len(batch)]
            if batch != want:
                return 'batch is not the next committed bytes in order'
            if delivered_bytes + len(batch) not in boundaries or delivered_bytes + len(p1) not in boundaries:
                return 'a batch piece does not end on a commit boundary'
            if delivered_bytes + len(batch) != len(committed_bytes):
                return 'a poll that happens after all commits did not return all committed bytes'
            last_batch = len(batch)
        elif c == 'd':
            if last_batch is not None:
                delivered_bytes += last_batch
                last_batch = None
    return None


def check_c01(ctx):
    ok = proof_step(ctx, 'BinlogVerif.Generated.Orders', C01_THEOREMS)
    exe = build_harness('queue_harness', link_repo=False)
    rng = random.Random(ctx.seed * 1000003 + 1)
    n = cases_count(ctx, 3000, 60000)
    lines = [gen_queue_script(rng) if i % 2 else gen_queue_script_events(rng) for i in range(n)]
    impl, model, mism = diff_streams(ctx, 'queue_ops', exe, lines)
    prop_fail, nontrivial = set(), set()
    wraps = 0
    for i, l in enumerate(lines):
        if i >= len(impl):
            break
        what = None if impl[i].startswith('<harness died') else monitor_queue(l, impl[i])
        if what:
            prop_fail.add(i)
            ctx.violation('queue-' + hashlib.sha256(l.encode()).hexdigest()[:10], 'C01: ' + what,
                          {'kind': 'script', 'input_line': l, 'impl': impl[i]})
        if ' p2=' in impl[i] and any(s.startswith('r ') and 'p2= ' not in s for s in impl[i].split(';')):
            wraps += 1
        if 'r p1=' in impl[i]:
            nontrivial.add(l)
    ctx.streams['queue_ops']['scripts_with_two_piece_reads'] = wraps
    report_corr(ctx, 'queue_ops', lines, impl, model, mism, prop_fail)
    # search for a failing schedule in the model under the memory orders the code has NOW
    found_schedule = False
    import json as _json
    try:
        orders = ctx.extract_info['Orders.lean']['orders']
    except Exception:
        orders = None
    if orders and all(v in ('relaxed', 'acquire', 'release') for v in orders.values()):
        o = [orders['wStore'], orders['wLoadC'], orders['rStore'], orders['rLoadP']]
        depth = 7 if (not ok or ctx.tier == 'thorough') else 5
        qlines = ['qexplore %d %d %s' % (cap, depth, ' '.join(o)) for cap in ((2, 3, 4) if not ok else (3,))]
        rc, outs, err = run_lines(driver_path(), qlines, timeout=1800)
        ctx.streams['model_exploration'] = {'commands': qlines, 'results': outs}
        for ql, res in zip(qlines, outs):
            if res.startswith('found'):
                found_schedule = True
                prop_fail.add(-1)
                ctx.violation('schedule-' + '-'.join(o), 'C01: with the memory orders extracted from the code (%s) the queue has a %s: %s' % (
                    orders, res.split(' ')[1], res),
                    {'kind': 'schedule', 'orders': orders, 'explore_cmd': ql, 'result': res,
                     'how_to_read': 'ops: b<n>:<j> beginWrite(n) reading readIndex message j; w<k> write k bytes; e endWrite; '
                                    'r<i> beginRead reading writeIndex message i; d endRead',
                     'replay': 'echo "%s" | lean/.lake/build/bin/driver' % ql})
                break
    finish_proof(ctx, ok, bool(prop_fail))
    ctx.coverage.update({'evaluations': len(lines), 'distinct_nontrivial': len(nontrivial),
                         'traces_validated_against_impl': len(lines) - len(mism),
                         'rule': 'operation scripts on the real Queue/QueueWriter/QueueReader, single threaded (each load reads the newest '
                                 'store): half arbitrary op mixes with sizes biased to 0, 1, cap-1, cap, cap+1 at capacities 0..64, half the '
                                 'SessionWriter pattern (beginWrite n, write n in pieces, endWrite) interleaved with polls; every return value, '
                                 'index, dataEnd, window size and both batch pieces compared with the model; non-trivial = script with at least '
                                 'one read; distinct by script.  The release/acquire interleavings are covered by the theorem, not by this stream.'})
    ctx.samples = [lines[0][:300], lines[1][:300]]
    ctx.assumptions.append('C++11 release/acquire as the view-based operational semantics (RC11 without load buffering)')
    return ctx.finish()


CHECKS = {'C01': check_c01}
