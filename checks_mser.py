"""Checks for the mserialize family: C04 (size/wire), C05 (round trip), C06 (tag/visit)."""
import os
import random
import subprocess
import sys
import hashlib
from concurrent.futures import ThreadPoolExecutor

sys.path.insert(0, os.path.join(os.path.dirname(os.path.abspath(__file__)), 'tools'))
import gen_types as GT
from checklib import *
from checks_reader import parse_kv, finish_proof, cases_count


def build_and_run_programs(ctx, nprog, ncases, seedbase):
    """generate, compile (in parallel, against the current /repo tree) and run nprog programs;
    the outputs are cached by (repo tree, generator, harness, seed) so that C04..C07 share one build"""
    import pickle
    key = file_hash(repo_sources() + [os.path.join(VERIF, 'tools', 'gen_types.py'), os.path.join(VERIF, 'harness', 'mser_report.hpp'),
                                      os.path.join(VERIF, 'checks_mser.py')]) + '-%d-%d-%d' % (nprog, ncases, seedbase)
    cache = os.path.join(BUILD, 'mser-cache-%s.pkl' % key)
    if os.path.exists(cache):
        with open(cache, 'rb') as f:
            return pickle.load(f), None
    progs, workdir = _build_and_run_programs(ctx, nprog, ncases, seedbase)
    for f in os.listdir(BUILD):
        if f.startswith('mser-cache-'):
            os.remove(os.path.join(BUILD, f))
    with open(cache, 'wb') as f:
        pickle.dump(progs, f)
    return progs, workdir


def _build_and_run_programs(ctx, nprog, ncases, seedbase):
    objs = build_repo_objects()
    workdir = os.path.join(BUILD, 'mser-%d' % os.getpid())
    os.makedirs(workdir, exist_ok=True)
    progs = []
    for p in range(nprog):
        rng = random.Random(seedbase * 7919 + p)
        src, cases, stats = GT.make_program(rng, 'p%d_' % p, ncases)
        path = os.path.join(workdir, 'prog%d.cpp' % p)
        open(path, 'w').write(src)
        progs.append({'src': path, 'cases': cases, 'stats': stats, 'exe': path[:-4]})

    def comp(pr):
        rc, out = sh(['g++'] + CXXFLAGS + ['-fno-sanitize=bool,enum,nonnull-attribute', '-I' + os.path.join(VERIF, 'harness'), pr['src']] + objs + ['-o', pr['exe'], '-lpthread'])
        return rc, out
    with ThreadPoolExecutor(max_workers=16) as ex:
        res = list(ex.map(comp, progs))
    bad = [(pr, out) for (rc, out), pr in zip(res, progs) if rc != 0]
    for pr, out in bad:
        pr['compile_error'] = out[-3000:]
    if len(bad) == len(progs):
        raise BuildError('generated program %s does not compile:\n%s' % (bad[0][0]['src'], bad[0][1][-3000:]))
    progs_ok = [pr for pr in progs if 'compile_error' not in pr]

    def run(pr):
        e = dict(os.environ)
        e['ASAN_OPTIONS'] = 'detect_leaks=0'
        p = subprocess.run([pr['exe']], stdout=subprocess.PIPE, stderr=subprocess.PIPE, env=e, timeout=600)
        return p.returncode, p.stdout.decode().split('\n'), p.stderr.decode()[-3000:]
    with ThreadPoolExecutor(max_workers=16) as ex:
        outs = list(ex.map(run, progs_ok))
    for pr, (rc, lines, err) in zip(progs_ok, outs):
        pr['rc'], pr['out'], pr['err'] = rc, [l for l in lines if l], err
    for pr in progs:
        if 'compile_error' in pr:
            pr['rc'], pr['out'], pr['err'] = -1, [], 'does not compile'
    return progs, workdir


def mser_common(ctx, module, theorems):
    ok = proof_step(ctx, module, theorems)
    nprog = cases_count(ctx, 8, 64)
    ncases = 20
    progs, workdir = build_and_run_programs(ctx, nprog, ncases, ctx.seed)
    lines, index = [], []
    for pi, pr in enumerate(progs):
        for ci, c in enumerate(pr['cases']):
            lines.append('mser ' + ' '.join(GT.ty_tokens(c['ty'])) + ' | ' + ' '.join(GT.val_tokens(c['val'])))
            index.append((pi, ci))
    rc, model, err = run_model_lines(lines)
    # fixed-size destinations: a second model stream
    into_lines, into_index = [], []
    for pi, pr in enumerate(progs):
        for ci, c in enumerate(pr['cases']):
            if c.get('fx'):
                into_lines.append('mserinto ' + ' '.join(c['fx']['dst']) + ' | ' + ' '.join(GT.val_tokens(c['val'])) + ' | 0102030405060708')
                into_index.append((pi, ci))
    if into_lines:
        rc2, into_model, err2 = run_model_lines(into_lines)
        for (pi, ci), l, m in zip(into_index, into_lines, into_model + [''] * (len(into_lines) - len(into_model))):
            progs[pi]['cases'][ci]['fx']['model'] = m
            progs[pi]['cases'][ci]['fx']['line'] = l
    # a type kind the tree newly accepts (single-pass ranges are rejected at compile time by the pinned tree): if accepted, the
    # size reported and the bytes written must be the documented encoding of {1, 2, 3}
    probes = [l for pr in progs for l in (pr.get('err') or '').split('\n') if l.startswith('PROBE input-range=')]
    accepted = [l for l in probes if 'accepted' in l]
    if accepted and ctx.pid in ('C04', 'C05'):
        kv = parse_kv(accepted[0])
        want = '03000000010000000200000003000000'
        if kv.get('bytes') != want or kv.get('size') != '16':
            ctx.pre_fail = True
            ctx.violation('c04-input-range', '%s: a single-pass range (std::istream_iterator) is accepted as a loggable sequence, but serialized_size '
                          'reports %s bytes and serialize writes %s (documented encoding of {1,2,3}: 16 bytes %s)' % (ctx.pid, kv.get('size'), kv.get('bytes'), want),
                          {'kind': 'program', 'probe': accepted[0], 'how': 'vr::InputRange in harness/mser_report.hpp, run at the start of every generated program'})
    stats = {}
    for pr in progs:
        for k, v in pr['stats'].items():
            stats[k] = stats.get(k, 0) + v
    stats['input_range_probe'] = 'accepted' if accepted else ('rejected' if probes else 'not reported')
    ctx.streams['mser'] = {'programs': len(progs), 'cases': len(lines), 'model_rc': rc, 'dispatch_counts': stats}
    if workdir:
        subprocess.run(['rm', '-rf', workdir])
    return ok, progs, lines, index, model


def compare_case(pr, ci, modelline, fields):
    """returns (impl kv, model kv, list of differing fields)"""
    if ci >= len(pr['out']):
        return None, parse_kv(modelline), ['<program died: rc=%s %s>' % (pr['rc'], pr['err'][-500:])]
    ikv = parse_kv(pr['out'][ci])
    mkv = parse_kv(modelline)
    if pr['cases'][ci]['ty'] == ('A', 'D'):
        # long double: 6 padding bytes of the 16-byte object are unspecified
        for kv in (ikv, mkv):
            kv['bytes'] = kv.get('bytes', '')[:20]
        ikv['size'] = mkv['size'] = '16' if ikv.get('size') == '16' else ikv.get('size')
    diffs = [f for f in fields if f != 'fx' and ikv.get(f) != mkv.get(f)]
    fx = pr['cases'][ci].get('fx')
    if 'fx' in fields and fx and ikv.get('fx') not in (None, 'NA'):
        fkv = parse_kv(fx.get('model', ''))
        mkv['fx'], mkv['fxtag'] = fkv.get('fx'), fkv.get('tag')
        if ikv.get('fx') != fkv.get('fx') or ikv.get('fxtag') != fkv.get('tag'):
            diffs.append('fx')
    return ikv, mkv, diffs


def run_mser_check(ctx, module, theorems, fields, monitor, rule):
    ok, progs, lines, index, model = mser_common(ctx, module, theorems)
    prop_fail, mism, nontrivial = set(), 0, set()
    nbad = 0
    for pr in progs:
        if pr.get('compile_error') and nbad < 2:
            nbad += 1
            ctx.violation('build-generated-%d' % nbad, 'a generated program over the real templates (a valid use of the library on the unchanged tree) does not compile against the current tree',
                          {'kind': 'build', 'log': pr['compile_error'], 'broken': 'correspondence stream mser (generated program build)'}, found_input=False)
    for li, (pi, ci) in enumerate(index):
        pr = progs[pi]
        if pr.get('compile_error'):
            continue
        c = pr['cases'][ci]
        mline = model[li] if li < len(model) else ''
        ikv, mkv, diffs = compare_case(pr, ci, mline, fields)
        what = monitor(c, ikv, mkv) if ikv is not None else 'generated program died (sanitizer/assert): ' + pr['err'][-400:]
        key = hashlib.sha256(lines[li].encode()).hexdigest()[:10]
        if what:
            prop_fail.add(li)
            ctx.violation('%s-%s' % (ctx.pid.lower(), key), '%s: %s' % (ctx.pid, what),
                          {'kind': 'program', 'cxx_type': c['cxx'], 'model_input': lines[li], 'impl': pr['out'][ci] if ci < len(pr['out']) else None,
                           'model': mline})
        elif diffs:
            mism += 1
            ctx.violation('corr-mser-%s' % key, 'correspondence mser broke: fields %s differ' % diffs,
                          {'kind': 'correspondence', 'stream': 'mser', 'cxx_type': c['cxx'], 'model_input': lines[li],
                           'impl': pr['out'][ci], 'model': mline, 'broken': 'correspondence stream mser / Props.%s' % ctx.pid},
                          found_input=False)
        elif c['ty'][0] != 'A':
            nontrivial.add(lines[li])
    ctx.streams['mser']['mismatches'] = mism
    finish_proof(ctx, ok, bool(prop_fail) or getattr(ctx, 'pre_fail', False))
    ctx.coverage.update({'evaluations': len(lines), 'distinct_nontrivial': len(nontrivial), 'programs': len(progs),
                         'traces_validated_against_impl': len(lines) - mism, 'rule': rule})
    ctx.samples = [lines[0][:300], lines[len(lines) // 2][:300]]
    return ctx.finish()


RULE = ('generated C++ programs over the real templates: random types (depth <= 4) from arithmetic kinds, std containers '
        '(vector, deque, list, forward_list, string, vector<bool>, set, multiset), pair/tuple, optional/unique_ptr/shared_ptr/'
        'raw pointer/variant, adapted enums and adapted structs, with random values incl. empty, null, extreme, NaN; '
        'dispatch branch counts are in streams.mser.dispatch_counts; non-trivial = not a bare arithmetic type; distinct by (type, value)')

C04_THEOREMS = ['BinlogVerif.C04.c04_size_exact', 'BinlogVerif.C04.c04_event_fits', 'BinlogVerif.C04.c04_entry_prefix']


def monitor_c04(c, ikv, mkv):
    bytes_ = ikv.get('bytes', '')
    want = GT.py_encode(c['ty'], c['val']).hex()
    if c['ty'] == ('A', 'D'):
        # 6 padding bytes of the 16-byte object are unspecified (already cut by compare_case)
        if ikv.get('size') != '16' or bytes_ != want[:20]:
            return 'long double: size/bytes differ from the documented encoding'
        return None
    if int(ikv.get('size', '-1')) * 2 != len(bytes_):
        return 'serialized_size %s != %d bytes written' % (ikv.get('size'), len(bytes_) // 2)
    if ikv.get('qok') != '1':
        return 'writing into a queue window of exactly serialized_size bytes failed'
    if bytes_ != want:
        return 'bytes differ from the documented encoding'
    return None


def check_c04(ctx):
    return run_mser_check(ctx, 'BinlogVerif.Props.C04', C04_THEOREMS, ['tag', 'size', 'bytes'], monitor_c04, RULE)


C05_THEOREMS = ['BinlogVerif.C05.c05_roundtrip', 'BinlogVerif.C05.c05_truncation', 'BinlogVerif.C05.c05_no_overread',
                'BinlogVerif.C05.c05_into_roundtrip', 'BinlogVerif.C05.c05_into_mismatch', 'BinlogVerif.C05.c05_into_eq_decode',
                'BinlogVerif.C05.c05_into_truncation']


def monitor_c05(c, ikv, mkv):
    for key, r in (('rt', c['rt']), ('xt', c['xt'])):
        if ikv.get(key) == 'NA' or r is None:
            continue
        if ikv.get(key + 'tag') != ikv.get('tag'):
            return None if False else 'tag of the %s destination differs (generator bug?)' % key
        want = GT.py_encode(c['ty'], GT.canon_value_for(r, c['val'])).hex()
        got = ikv.get(key, '')
        if got.startswith('EXC'):
            return 'deserialization into %s threw: %s' % (r['cxx'], bytes.fromhex(got[4:]).decode('latin1'))
        if got != want and 'D' not in GT.py_tag(c['ty']):
            return 'round trip through %s changed the value' % r['cxx']
        if ikv.get(key + 'rest') != '0':
            return 'deserialization left %s bytes' % ikv.get(key + 'rest')
        if ikv.get(key + 'truncok') != '0':
            return '%s truncated inputs deserialized without an exception' % ikv.get(key + 'truncok')
    if c.get('ag') and c['rt'] is not None and 'D' not in GT.py_tag(c['ty']):
        got = ikv.get('rt2', '')
        if got.startswith('EXC'):
            return 'deserialization into a used %s threw: %s' % (c['rt']['cxx'], bytes.fromhex(got[4:]).decode('latin1'))
        if got != GT.py_encode(c['ty'], GT.canon_value_for(c['rt'], c['val2'])).hex():
            return ('deserializing a second value into the %s that holds the first one did not yield the second value: %s' % (c['rt']['cxx'], got[:120]))
        if c['ag'] & 2 and ikv.get('keep') != GT.py_encode(c['ty'], GT.canon_value_for(c['rt'], c['val'])).hex():
            return ('a copy of the first deserialized %s changed when a second value was deserialized into the original: %s' % (c['rt']['cxx'], str(ikv.get('keep'))[:120]))
    fx = c.get('fx')
    if fx and ikv.get('fx') not in (None, 'NA') and 'D' not in GT.py_tag(c['ty']):
        got = ikv['fx']
        if fx['fits']:
            want = GT.py_encode(c['ty'], c['val']).hex() + '/8'
            if got != want:
                return 'deserialization into %s (every fixed size matches) did not return the value and leave the 8 following bytes: %s' % (fx['cxx'], got[:120])
        elif not got.startswith('ERR:'):
            return ('the fixed-size destination %s does not match the encoded size, but deserialization did not fail: it produced %s '
                    '(value/bytes left of the 8 that follow)' % (fx['cxx'], got[:120]))
    return None


def check_c05(ctx):
    return run_mser_check(ctx, 'BinlogVerif.Props.C05', C05_THEOREMS, ['tag', 'bytes', 'fx'], monitor_c05,
                          RULE + '; each value is deserialized into the same type (when deserializable) and into an independently '
                          'realised tag-compatible type, re-serialized and compared; every truncation point is tried under ASan; values with a '
                          'sequence are also deserialized, followed by 8 bytes of another value, into a destination in which sequence nodes are '
                          'std::array<E,N> with matching or non-matching N (element-wise and batch element types)')


C06_THEOREMS = ['BinlogVerif.C06.c06_tag_first_size', 'BinlogVerif.C06.c06_tag_pop', 'BinlogVerif.C06.c06_split_args',
                'BinlogVerif.C06.c06_visit_agrees', 'BinlogVerif.C06.c06_visit_top', "BinlogVerif.C06.c06_visit_top'",
                'BinlogVerif.C06.c06_singular', 'BinlogVerif.C06.c06_singular_encode', 'BinlogVerif.C06.c06_singular_events_const',
                'BinlogVerif.C06.c06_consumes_exactly', 'BinlogVerif.C06.c06_emptyStructsOk_of_names']


def monitor_c06(c, ikv, mkv):
    if ikv.get('visitrest') != '0':
        return 'visit left %s bytes unconsumed' % ikv.get('visitrest')
    if ikv.get('visiterr'):
        return 'visit threw: ' + bytes.fromhex(ikv['visiterr']).decode('latin1')
    if bytes.fromhex(ikv.get('tag', '')).decode('latin1') != GT.py_tag(c['ty']):
        return 'tag differs from the documented tag grammar: ' + GT.py_tag(c['ty'])
    # the callbacks must be the structure of the value: compared with the specification `events t v`
    if ikv.get('events') != mkv.get('specevents'):
        return 'visitor callbacks differ from the value structure'
    return None


def rectag_stream(ctx):
    """hand-written tags with struct back-references (recursive structs): real mserialize::visit / singular on the tag string
    vs the tag-string model (correspondence), and vs an independent statement of the expected callbacks (property monitor)"""
    import gen_rectags as RT
    exe = build_harness('tag_harness', link_repo=False)
    rng = random.Random(ctx.seed * 1000003 + 606)
    n = cases_count(ctx, 3000, 60000)
    cases = []
    while len(cases) < n:
        c = RT.gen_case(rng)
        if c[3] or rng.random() < 0.2:          # mostly tags with at least one back-reference
            cases.append(c)
    lines = ['tagvisit %s %s' % (c[0].hex(), c[1].hex() or '-') for c in cases]
    # history: records whose tags have the same length (they occupy the same bytes of the reader's tag string) but different
    # kinds of elements - more than 32 zero-size (singular) elements, then more than 32 elements that carry data: what is
    # reported for a record must not depend on the records visited before it (B, A, B: both B's must read the same)
    import struct as _st
    hist = []
    pairs = [(b'[()', b'[[c', lambda i: _st.pack('<I', 2) + bytes([97 + i % 26, 48 + i % 10])),
             (b'[(())', b'[(ic)', lambda i: _st.pack('<i', i) + bytes([65 + i % 26])),
             (b'[(()())', b'[(i[c)', lambda i: _st.pack('<i', -i) + _st.pack('<I', 1) + bytes([97 + i % 26])),
             (b'[<()>', b'[<0i>', lambda i: bytes([1]) + _st.pack('<i', 7 * i))]
    for sing, nons, elem in pairs:
        for n_ in (33, 40):
            a_line = 'tagvisit %s %s' % (sing.hex(), (_st.pack('<I', n_) + (bytes([0]) * n_ if sing == b'[<()>' else b'')).hex())
            b_line = 'tagvisit %s %s' % (nons.hex(), (_st.pack('<I', n_) + b''.join(elem(i) for i in range(n_))).hex())
            hist.append((len(lines), len(lines) + 2))
            lines += [b_line, a_line, b_line]
    impl, model, mism = diff_streams(ctx, 'tagvisit', exe, lines)
    fails = 0
    # reference: each history record visited alone, by a fresh process
    fresh = {}
    for i0, i1 in hist:
        for j in (i0, i0 + 1):
            if lines[j] not in fresh:
                rc_, o_, e_ = run_lines(exe, [lines[j]])
                fresh[lines[j]] = o_[0] if o_ else '<died>'
    for i0, i1 in hist:
        bad = [j for j in (i0, i0 + 1, i1) if j < len(impl) and impl[j] != fresh[lines[j]]]
        if bad:
            fails += 1
            ctx.violation('c06-history-%d' % i0, 'C06: what visit reports for a record depends on the records visited before it (the same tag and bytes give '
                          'different callbacks after a record whose tag occupied the same buffer than when visited alone)',
                          {'kind': 'history', 'input_lines': lines[i0:i1 + 1], 'differs_at': [j - i0 for j in bad],
                           'in_history': [impl[j][:1200] for j in bad], 'alone': [fresh[lines[j]][:1200] for j in bad]})
    for i, c in enumerate(cases):
        if i >= len(impl):
            break
        kv = parse_kv(impl[i])
        what = None
        if kv.get('err') != '-':
            what = 'visiting a value of the tag %s failed: %s' % (c[0].decode(), kv.get('err'))
        elif kv.get('rest') != '0':
            what = 'visiting a value of the tag %s left %s of its %d bytes unconsumed' % (c[0].decode(), kv.get('rest'), len(c[1]))
        elif kv.get('events') != c[2]:
            what = 'the callbacks for a value of the tag %s are not the value\'s structure' % c[0].decode()
        if what:
            fails += 1
            if fails <= 3:
                ctx.violation('c06-rectag-%s' % hashlib.sha256(lines[i].encode()).hexdigest()[:10], 'C06: ' + what,
                              {'kind': 'input', 'input_line': lines[i], 'tag': c[0].decode(), 'bytes_hex': c[1].hex(), 'impl': impl[i], 'expected_events': c[2]})
        elif i in mism:
            ctx.violation('corr-tagvisit-%d' % i, 'correspondence tagvisit broke: model and implementation disagree on case %d' % i,
                          {'kind': 'correspondence', 'stream': 'tagvisit', 'input_line': lines[i], 'impl': impl[i], 'model': model[i] if i < len(model) else None,
                           'broken': 'correspondence stream tagvisit / Props.C06'}, found_input=False)
    for j in sorted(m for m in mism if m >= len(cases))[:3]:
        ctx.violation('corr-tagvisit-%d' % j, 'correspondence tagvisit broke: model and implementation disagree on history line %d' % j,
                      {'kind': 'correspondence', 'stream': 'tagvisit', 'input_line': lines[j], 'impl': impl[j] if j < len(impl) else None,
                       'model': model[j] if j < len(model) else None, 'broken': 'correspondence stream tagvisit / Props.C06'}, found_input=False)
    ctx.streams['tagvisit'].update({'with_back_reference': sum(1 for c in cases if c[3]), 'property_failures': fails})
    return fails


def check_c06(ctx):
    ctx.pre_fail = rectag_stream(ctx) > 0
    return run_mser_check(ctx, 'BinlogVerif.Props.C06', C06_THEOREMS, ['tag', 'bytes', 'events', 'visitrest'], monitor_c06,
                          RULE + '; plus hand-written tags with struct back-references (recursive and shared structs, names that are prefixes '
                          'of each other, references below optionals/sequences/tuples) with values to depth 4: real visit/singular on the tag string '
                          'vs the tag-string model and vs independently computed callbacks (stream tagvisit)')


C07_THEOREMS = ['BinlogVerif.C07.c07_render_refines', 'BinlogVerif.C07.c07_render_top', "BinlogVerif.C07.c07_render_top'",
                'BinlogVerif.C07.c07_render_append', 'BinlogVerif.C07.c07_singular_render_const',
                'BinlogVerif.C07.c07_message', 'BinlogVerif.C07.c07_message_pp', 'BinlogVerif.C07.c07_render_refines_special',
                'BinlogVerif.C07.c07_render_append_special', 'BinlogVerif.C07.c07_message_special', 'BinlogVerif.C07.c07_printStruct_declines',
                'BinlogVerif.C07.c07_read_back', 'BinlogVerif.C07.c07_end_to_end', 'BinlogVerif.C07.c07_latest_writerProp',
                'BinlogVerif.C07.c07_latest_clockSync']


def monitor_c07(c, ikv, mkv):
    # the text the real ToStringVisitor prints must be the documented rendering (`render`, written from the docs)
    if 'D' in GT.py_tag(c['ty']) and c['ty'] != ('A', 'D'):
        return None
    if ikv.get('text') != mkv.get('render'):
        return 'printed text differs from the documented rendering: got %r, documented %r' % (
            bytes.fromhex(ikv.get('text', '')).decode('latin1')[:200], bytes.fromhex(mkv.get('render', '')).decode('latin1')[:200])
    return None


E2E_FORMATS = [b'%S %C [%d] %n %m (%G:%L)', b'%m', b'%I|%S|%C|%M|%F|%G|%L|%P|%T|%n|%t|%r|%m', b'%u %d', b'[%d] %m', b'%% %x %S%', b'%t:%n %M@%F:%L %m', b'%P -> %m']
E2E_DATE_FORMATS = [b'%Y-%m-%d %H:%M:%S.%N', b'%Y%m%dT%H%M%S %z %Z', b'%d/%m/%y %H:%M', b'%N', b'']


def e2e_stream(ctx):
    """whole generated programs (log macros of every family, generated argument types, named writers, two sessions) -> files ->
    the real bread binary, compared (a) with the model of bread on the same bytes and (b) with the text computed from the
    SOURCE-LEVEL description of the statements (documented rendering of the typed values, time model of C17)"""
    import gen_e2e as E2E
    import checks_robust as CR
    nprog = cases_count(ctx, 4, 32)
    nst = 12
    objs = build_repo_objects()
    bread = CR.build_bread()
    workdir = os.path.join(BUILD, 'e2e-%d' % os.getpid())
    os.makedirs(workdir, exist_ok=True)
    progs = []
    for p in range(nprog):
        rng = random.Random(ctx.seed * 104729 + p)
        src, desc = E2E.make_program(rng, 'e%d_' % p, nst)
        path = os.path.join(workdir, 'e2e%d.cpp' % p)
        open(path, 'w').write(src)
        progs.append({'src': path, 'exe': path[:-4], 'desc': desc, 'rng': rng})

    def comp(pr):
        rc, out = sh(['g++'] + CXXFLAGS + ['-fno-sanitize=bool,enum,nonnull-attribute', pr['src']] + objs + ['-o', pr['exe'], '-lpthread'])
        if rc == 0:
            e = dict(os.environ, ASAN_OPTIONS='detect_leaks=0')
            q = subprocess.run([pr['exe'], pr['exe'] + '.1.blog', pr['exe'] + '.2.blog'], stdout=subprocess.PIPE, stderr=subprocess.PIPE, env=e, timeout=300)
            return rc, out, q.returncode, q.stderr.decode('latin1')[-2000:]
        return rc, out, None, ''
    with ThreadPoolExecutor(max_workers=16) as ex:
        res = list(ex.map(comp, progs))
    try:
        for (rc, out, rrc, rerr), pr in zip(res, progs):
            if rc != 0:
                raise BuildError('generated end-to-end program %s does not compile:\n%s' % (pr['src'], out[-3000:]))
            if rrc != 0:
                ctx.violation('e2e-program-died', 'C07: a generated logging program died (sanitizer/assert): ' + rerr[-500:], {'kind': 'program', 'source': open(pr['src']).read()[-6000:]})
                return 1
        # the source-level expectation needs the documented rendering of every argument and the time model
        mser_lines, time_jobs = [], []
        for pr in progs:
            for st in pr['desc']['stmts']:
                for a in st['args']:
                    a['line'] = 'mser ' + ' '.join(GT.ty_tokens(a['ty'])) + ' | ' + ' '.join(GT.val_tokens(a['val']))
                    mser_lines.append(a['line'])
        mser_lines = sorted(set(mser_lines))
        rc, mout, err = run_model_lines(mser_lines)
        render = dict((l, bytes.fromhex(parse_kv(o).get('renderpp', ''))) for l, o in zip(mser_lines, mout))
        nfail, nmism, nev, nlines = 0, 0, 0, 0
        fam = {}
        for pr in progs:
            desc = pr['desc']
            sync = desc['sync']
            cs = '%d,%d,%d,%d,%s' % (sync[0], sync[1], sync[2], sync[3] & 0xffffffff, sync[4].encode().hex())
            for session, suffix in (('explicit', '.1.blog'), ('default', '.2.blog')):
                file = open(pr['exe'] + suffix, 'rb').read()
                evs = E2E.expected_events(desc, session)
                # clocks of the events (only the system-clock ones are not known at source level)
                q = subprocess.run([bread, '-f', '%r', pr['exe'] + suffix], stdout=subprocess.PIPE, stderr=subprocess.PIPE, env=dict(os.environ, ASAN_OPTIONS='detect_leaks=0'), timeout=120)
                clocks = q.stdout.decode().split('\n')[:-1]
                if len(clocks) != len(evs):
                    nfail += 1
                    ctx.violation('e2e-count-%s' % os.path.basename(pr['exe']), 'C07: bread printed %d events, the program logged %d into this session' % (len(clocks), len(evs)),
                                  {'kind': 'program', 'source': open(pr['src']).read()[-8000:], 'bread_stderr': q.stderr.decode('latin1')[-500:]})
                    continue
                for fi in range(3):
                    fmt, dfmt = pr['rng'].choice(E2E_FORMATS), pr['rng'].choice(E2E_DATE_FORMATS)
                    q = subprocess.run([bread, '-f', fmt.decode(), '-d', dfmt.decode(), pr['exe'] + suffix], stdout=subprocess.PIPE, stderr=subprocess.PIPE,
                                       env=dict(os.environ, ASAN_OPTIONS='detect_leaks=0'), timeout=120)
                    got = q.stdout
                    # (a) the model of bread on the same bytes
                    rc, mo, err = run_lines(driver_path(), ['bread 0 %s %s %s' % ((fmt + b'\n').hex(), dfmt.hex() or '-', file.hex() or '-')])
                    mtext = bytes.fromhex(parse_kv(mo[0]).get('text', '')) if mo else b''
                    # (b) the source-level expectation
                    tl = ['time %s %s %s' % (dfmt.hex() or '-', cs, c) for c in clocks]
                    rc, to, err = run_lines(driver_path(), tl) if tl else (0, [], '')
                    want = b''
                    for (si, sid), clock, tline in zip(evs, clocks, to):
                        st = desc['stmts'][si]
                        nev += 1
                        fam[st['family']] = fam.get(st['family'], 0) + 1
                        if st['clock'] is not None and int(clock) != st['clock']:
                            want += b'<clock of the statement is %d>' % st['clock']
                        tk = parse_kv(tline)
                        msg, rest, ai = b'', st['fmt'], 0
                        while rest:
                            if rest[:2] == b'{}':
                                msg += render[st['args'][ai]['line']]
                                ai += 1
                                rest = rest[2:]
                            else:
                                msg += rest[:1]
                                rest = rest[1:]
                        file_ = st['file']
                        base = file_
                        for sep in (b'/', b'\\'):
                            base = base.split(sep)[-1]
                        fields = {b'I': b'%d' % sid, b'S': st['sev'][3].encode(), b'C': st['cat'].encode(), b'M': st['fn'].encode(), b'F': file_, b'G': base,
                                  b'L': b'%d' % st['line'], b'P': st['fmt'], b'T': ''.join(GT.py_tag(a['ty']) for a in st['args']).encode(),
                                  b'n': st['writer']['name'].encode(), b't': b'%d' % st['writer']['id'], b'r': clock.encode(),
                                  b'd': bytes.fromhex(tk.get('local', '')) if not tk.get('local', '').startswith('ERR') else b'<time error>',
                                  b'u': bytes.fromhex(tk.get('utc', '')) if not tk.get('utc', '').startswith('ERR') else b'<time error>', b'm': msg, b'%': b'%'}
                        f = fmt + b'\n'
                        i = 0
                        while i < len(f):
                            if f[i:i + 1] == b'%' and i + 1 < len(f):
                                want += fields.get(f[i + 1:i + 2], f[i:i + 2])
                                i += 2
                            else:
                                want += f[i:i + 1]
                                i += 1
                    nlines += 1
                    key = hashlib.sha256(got + fmt + dfmt).hexdigest()[:10]
                    if got != want:
                        nfail += 1
                        if nfail <= 3:
                            # first differing line
                            gl, wl = got.split(b'\n'), want.split(b'\n')
                            k = next((j for j in range(min(len(gl), len(wl))) if gl[j] != wl[j]), min(len(gl), len(wl)))
                            ctx.violation('e2e-%s' % key, 'C07: what bread prints is not what the program logged (format %r, date format %r): line %d is %r, the statement denotes %r' % (
                                fmt.decode(), dfmt.decode(), k, gl[k][:300] if k < len(gl) else None, wl[k][:300] if k < len(wl) else None),
                                {'kind': 'program', 'source_tail': open(pr['src']).read()[-8000:], 'format': fmt.decode(), 'date_format': dfmt.decode(),
                                 'session': session, 'bread_stdout': got.decode('latin1')[:4000], 'expected': want.decode('latin1')[:4000]})
                    elif got != mtext:
                        nmism += 1
                        if nmism <= 3:
                            ctx.violation('corr-e2e-%s' % key, 'correspondence e2e broke: the model of bread and the real bread disagree on the file a generated program wrote',
                                          {'kind': 'correspondence', 'stream': 'e2e', 'format': fmt.decode(), 'date_format': dfmt.decode(), 'file_hex': file.hex()[:20000],
                                           'impl': got.decode('latin1')[:3000], 'model': mtext.decode('latin1')[:3000], 'broken': 'correspondence stream e2e / Props.C07'}, found_input=False)
        ctx.streams['e2e'] = {'programs': nprog, 'statements_per_program': nst, 'outputs_compared': nlines, 'events_checked': nev, 'property_failures': nfail,
                              'mismatches': nmism, 'macro_families': fam}
        return nfail
    finally:
        subprocess.run(['rm', '-rf', workdir])


def check_c07(ctx):
    ctx.pre_fail = e2e_stream(ctx) > 0
    return run_mser_check(ctx, 'BinlogVerif.Props.C07', C07_THEOREMS, ['tag', 'bytes', 'text'], monitor_c07, RULE)


CHECKS = {'C04': check_c04, 'C05': check_c05, 'C06': check_c06, 'C07': check_c07}
