// Sequential correspondence harness for the SPSC queue (C01): runs operation scripts on the REAL
// Queue / QueueWriter / QueueReader (single thread: every load reads the newest store) and prints the
// same canonical line as `queue` of the Lean driver.
#include <binlog/detail/Queue.hpp>
#include <binlog/detail/QueueReader.hpp>
#include <binlog/detail/QueueWriter.hpp>

#include <cstdint>
#include <iostream>
#include <sstream>
#include <string>
#include <vector>

static std::string hex(const char* p, std::size_t n)
{
  static const char* d = "0123456789abcdef";
  std::string s;
  for (std::size_t i = 0; i < n; ++i) { const unsigned char c = static_cast<unsigned char>(p[i]); s.push_back(d[c >> 4]); s.push_back(d[c & 15]); }
  return s;
}

int main()
{
  std::ios::sync_with_stdio(false);
  std::string line;
  while (std::getline(std::cin, line))
  {
    std::istringstream in(line);
    std::string cmd;
    std::size_t cap = 0;
    in >> cmd >> cap;
    if (cmd != "queue") { std::cout << "bad-op\n"; continue; }
    std::vector<char> buffer(cap + 1);   // never a null buffer, as in Session::Channel
    binlog::detail::Queue q(buffer.data(), cap);
    binlog::detail::QueueWriter w(q);
    binlog::detail::QueueReader r(q);
    bool fresh = false;     // a newly constructed reader that has not polled yet
    std::size_t pending = 0;
    std::uint64_t nextTok = 1;
    bool readOpen = false; (void)readOpen;
    std::string out;
    auto show = [&]() {
      std::ostringstream s;
      s << "W=" << q.writeIndex.load() << " R=" << q.readIndex.load() << " E=" << q.dataEnd << " cap=" << w.writeCapacity();
      return s.str();
    };
    std::string tok;
    bool first = true;
    while (in >> tok)
    {
      std::string seg;
      const char c = tok[0];
      if (c == 'b')
      {
        const std::size_t n = std::stoull(tok.substr(1, tok.find(':') - 1));
        if (n > w.writeCapacity() && pending != 0) { seg = "disabled"; }
        else { const bool ok = w.beginWrite(n); seg = std::string("b ok=") + (ok ? "1" : "0") + " " + show(); }
      }
      else if (c == 'w')
      {
        const std::size_t k = std::stoull(tok.substr(1));
        if (k > w.writeCapacity()) { seg = "disabled"; }
        else
        {
          std::string bytes;
          for (std::size_t i = 0; i < k; ++i) { bytes.push_back(char(nextTok++ % 256)); }
          w.writeBuffer(bytes.data(), k);
          pending += k;
          seg = "w " + show();
        }
      }
      else if (c == 'e') { w.endWrite(); pending = 0; seg = "e " + show(); }
      else if (c == 'n') { r = binlog::detail::QueueReader(q); fresh = true; seg = "n"; }
      else if (c == 'd' && fresh) { seg = "disabled"; }
      else if (c == 'r')
      {
        fresh = false;
        const auto rr = r.beginRead();
        seg = "r p1=" + hex(rr.buffer1, rr.size1) + " p2=" + hex(rr.buffer2, rr.size2) + " " + show();
      }
      else if (c == 'd') { r.endRead(); seg = "d " + show(); }
      else { seg = "bad-op"; }
      if (! first) { out += ';'; }
      first = false;
      out += seg;
    }
    std::cout << out << " race=0\n" << std::flush;
  }
  return 0;
}
