// Tag-level harness for C06: the real mserialize::visit (recording visitor) and mserialize::singular on an ARBITRARY tag
// string and ARBITRARY argument bytes — used for recursive structs with hand-written tags, which the generated-type
// programs cannot express.  One line in: `tagvisit <full tag hex> <bytes hex>`; one line out.
#include "mser_report.hpp"
#include <mserialize/singular.hpp>

#include <iostream>
#include <string>

static bool unhex(const std::string& h, std::string& out)
{
  out.clear();
  if (h == "-") { return true; }
  auto val = [](char c) -> int { if ('0' <= c && c <= '9') return c - '0'; if ('a' <= c && c <= 'f') return c - 'a' + 10; return -1; };
  if (h.size() % 2 != 0) { return false; }
  for (std::size_t i = 0; i + 1 < h.size(); i += 2)
  {
    const int a = val(h[i]), b = val(h[i + 1]);
    if (a < 0 || b < 0) { return false; }
    out.push_back(char(a * 16 + b));
  }
  return true;
}

static std::string kind(const std::string& what)
{
  if (what.find("Range overflow") != std::string::npos) { return "overflow"; }
  if (what.find("Recursion limit") != std::string::npos) { return "recursion"; }
  if (what.find("Invalid") != std::string::npos) { return "invalid-tag"; }
  return "other:" + vr::hex(what);
}

int main()
{
  std::string line;
  // ONE tag object for the whole stream, as a reader that deserializes each record's tag into the same std::string has it
  // (doc/Mserialize.md): consecutive records then present different tags at the same address
  std::string tag;
  while (std::getline(std::cin, line))
  {
    const std::size_t s1 = line.find(' ');
    const std::size_t s2 = line.find(' ', s1 + 1);
    std::string bytes;
    if (s1 == std::string::npos || s2 == std::string::npos || line.substr(0, s1) != "tagvisit"
        || ! unhex(line.substr(s1 + 1, s2 - s1 - 1), tag) || ! unhex(line.substr(s2 + 1), bytes))
    {
      std::cout << "bad-op\n";
      continue;
    }
    vr::Recorder rec;
    binlog::Range in(bytes.data(), bytes.size());
    std::string err = "-";
    try { mserialize::visit(tag, rec, in); } catch (const std::exception& ex) { err = kind(ex.what()); }
    std::string sing;
    try { sing = mserialize::singular(tag, tag) ? "1" : "0"; } catch (const std::exception& ex) { sing = kind(ex.what()); }
    std::cout << "events=" << rec.ev << " rest=" << in.size() << " err=" << err << " singular=" << sing << "\n" << std::flush;
  }
  return 0;
}
