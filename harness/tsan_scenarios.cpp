// ThreadSanitizer scenarios for C10 (finder, not the claim): the REAL, unmodified headers used concurrently the way the
// documentation allows — every writer owned by one thread at a time, any thread may consume / reconsumeMetadata /
// setClockSync / setMinSeverity / register sources.  Randomised by a seed.
#include <binlog/binlog.hpp>

#include <atomic>
#include <cstdint>
#include <cstdlib>
#include <iostream>
#include <random>
#include <string>
#include <thread>
#include <vector>

struct NullOut
{
  std::size_t bytes = 0;
  NullOut& write(const char*, std::streamsize n) { bytes += std::size_t(n); return *this; }
};

int main(int argc, char** argv)
{
  const unsigned seed = argc > 1 ? unsigned(std::atoi(argv[1])) : 1;
  const int writers = argc > 2 ? std::atoi(argv[2]) : 4;
  const int iters = argc > 3 ? std::atoi(argv[3]) : 1500;
  binlog::Session session;
  std::atomic<bool> stop{false};
  std::atomic<std::size_t> logged{0};

  std::vector<std::thread> threads;
  for (int w = 0; w < writers; ++w)
  {
    threads.emplace_back([&, w]()
    {
      std::mt19937 rng(seed * 977 + unsigned(w));
      auto make = [&]() { return binlog::SessionWriter(session, std::size_t(64 << (rng() % 5)), std::uint64_t(w), "w" + std::to_string(w)); };
      binlog::SessionWriter writer = make();
      for (int i = 0; i < iters; ++i)
      {
        const unsigned k = rng() % 100;
        if (k < 70)
        {
          std::string payload(rng() % 200, 'x');
          BINLOG_INFO_W(writer, "hello {} {}", i, payload);
          ++logged;
        }
        else if (k < 80) { BINLOG_DEBUG_WC(writer, cat, "dbg {}", std::vector<int>(rng() % 10, 7)); ++logged; }
        else if (k < 86) { writer.setName("n" + std::to_string(rng() % 10)); }
        else if (k < 90) { writer.setId(rng()); }
        else if (k < 95) { binlog::SessionWriter moved(std::move(writer)); writer = std::move(moved); }
        else { writer = make(); }   // destroys the old writer right after logging, creates a new channel
      }
    });
  }
  // consumer
  threads.emplace_back([&]()
  {
    NullOut out;
    while (! stop.load()) { session.consume(out); }
    session.consume(out);
  });
  // administrator
  threads.emplace_back([&]()
  {
    std::mt19937 rng(seed * 31337);
    NullOut out;
    for (int i = 0; i < iters / 2; ++i)
    {
      switch (rng() % 5)
      {
      case 0: session.setClockSync(binlog::systemClockSync()); break;
      case 1: session.setMinSeverity(rng() % 2 ? binlog::Severity::trace : binlog::Severity::info); break;
      case 2: session.addEventSource(binlog::EventSource{0, binlog::Severity::info, "c", "f", "file", 1, "fmt", ""}); break;
      case 3: session.reconsumeMetadata(out); break;
      default: (void)session.minSeverity(); break;
      }
    }
  });
  for (int w = 0; w < writers; ++w) { threads[std::size_t(w)].join(); }
  threads.back().join();
  stop.store(true);
  threads[std::size_t(writers)].join();
  std::cout << "done logged=" << logged.load() << "\n";
  return 0;
}
