// ThreadSanitizer scenarios for C10 (finder, not the claim): the REAL, unmodified headers used concurrently the way the
// documentation allows — every writer owned by one thread at a time, any thread may consume / reconsumeMetadata /
// setClockSync / setMinSeverity / register sources.  Randomised by a seed.
#include <binlog/binlog.hpp>

#include <atomic>
#include <cstdint>
#include <cstdlib>
#include <iostream>
#include <random>
#include <string>
#include <thread>
#include <vector>

struct NullOut
{
  std::size_t bytes = 0;
  unsigned sum = 0;
  // the output stream READS every byte it is given (as a file or socket would): the consumer's reads of the queue bytes
  // are what the producer's next lap must be ordered after
  NullOut& write(const char* p, std::streamsize n)
  {
    for (std::streamsize i = 0; i < n; ++i) { sum += static_cast<unsigned char>(p[i]); }
    bytes += std::size_t(n);
    return *this;
  }
};

// Lap mode: ONE writer with a small queue and a consumer, in lock step through a RELAXED atomic phase counter (it fixes the
// real-time order of the phases and adds no happens-before edge).  In every phase the writer logs a few small events, then
// the consumer either consumes or skips (lags).  Over many phases the queue wraps again and again with the consumer at every
// possible distance behind: every byte of the queue is read by the consumer in one lap and written by the producer in the
// next, and only the acquire/release pairs on the queue indices order the two.
static int lap_mode(unsigned seed, int phases)
{
  binlog::Session session;
  std::mt19937 rng(seed * 7919u + 13u);
  const std::size_t cap = std::size_t(60 + 20 * (rng() % 8));
  binlog::SessionWriter writer(session, cap);
  std::atomic<int> phase{0};       // even: the writer's turn, odd: the consumer's
  std::size_t logged = 0, consumed = 0;
  std::thread consumer([&]()
  {
    std::mt19937 crng(seed * 104729u + 7u);
    NullOut out;
    for (int p = 1; p < 2 * phases; p += 2)
    {
      while (phase.load(std::memory_order_relaxed) != p) { std::this_thread::yield(); }
      if (crng() % 4 != 0) { session.consume(out); }
      phase.store(p + 1, std::memory_order_relaxed);
    }
    session.consume(out);
    consumed = out.bytes;
  });
  for (int p = 0; p < 2 * phases; p += 2)
  {
    while (phase.load(std::memory_order_relaxed) != p) { std::this_thread::yield(); }
    const unsigned k = 1 + rng() % 3;
    for (unsigned i = 0; i < k; ++i)
    {
      if (rng() % 3 == 0) { BINLOG_INFO_W(writer, "lap {}", int(i)); } else { BINLOG_INFO_W(writer, "lap"); }
      ++logged;
    }
    phase.store(p + 1, std::memory_order_relaxed);
  }
  consumer.join();
  std::cout << "done logged=" << logged << " consumed=" << consumed << "\n";
  return 0;
}

int main(int argc, char** argv)
{
  if (argc > 4 && std::string(argv[4]) == "lap") { return lap_mode(unsigned(std::atoi(argv[1])), std::atoi(argv[3])); }
  const unsigned seed = argc > 1 ? unsigned(std::atoi(argv[1])) : 1;
  const int writers = argc > 2 ? std::atoi(argv[2]) : 4;
  const int iters = argc > 3 ? std::atoi(argv[3]) : 1500;
  binlog::Session session;
  std::atomic<bool> stop{false};
  std::atomic<std::size_t> logged{0};

  std::vector<std::thread> threads;
  for (int w = 0; w < writers; ++w)
  {
    threads.emplace_back([&, w]()
    {
      std::mt19937 rng(seed * 977 + unsigned(w));
      auto make = [&]() { return binlog::SessionWriter(session, std::size_t(64 << (rng() % 5)), std::uint64_t(w), "w" + std::to_string(w)); };
      binlog::SessionWriter writer = make();
      for (int i = 0; i < iters; ++i)
      {
        const unsigned k = rng() % 100;
        if (k < 70)
        {
          std::string payload(rng() % 200, 'x');
          BINLOG_INFO_W(writer, "hello {} {}", i, payload);
          ++logged;
        }
        else if (k < 80) { BINLOG_DEBUG_WC(writer, cat, "dbg {}", std::vector<int>(rng() % 10, 7)); ++logged; }
        else if (k < 86) { writer.setName("n" + std::to_string(rng() % 10)); }
        else if (k < 90) { writer.setId(rng()); }
        else if (k < 95) { binlog::SessionWriter moved(std::move(writer)); writer = std::move(moved); }
        else { writer = make(); }   // destroys the old writer right after logging, creates a new channel
      }
    });
  }
  // consumer
  threads.emplace_back([&]()
  {
    NullOut out;
    while (! stop.load()) { session.consume(out); }
    session.consume(out);
  });
  // administrator
  threads.emplace_back([&]()
  {
    std::mt19937 rng(seed * 31337);
    NullOut out;
    for (int i = 0; i < iters / 2; ++i)
    {
      switch (rng() % 5)
      {
      case 0: session.setClockSync(binlog::systemClockSync()); break;
      case 1: session.setMinSeverity(rng() % 2 ? binlog::Severity::trace : binlog::Severity::info); break;
      case 2: session.addEventSource(binlog::EventSource{0, binlog::Severity::info, "c", "f", "file", 1, "fmt", ""}); break;
      case 3: session.reconsumeMetadata(out); break;
      default: (void)session.minSeverity(); break;
      }
    }
  });
  for (int w = 0; w < writers; ++w) { threads[std::size_t(w)].join(); }
  threads.back().join();
  stop.store(true);
  threads[std::size_t(writers)].join();
  std::cout << "done logged=" << logged.load() << "\n";
  return 0;
}
