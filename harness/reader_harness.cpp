// Correspondence harness for the reader family (C12, C14, C15, C16, C18).
// Reads one command per line on stdin, runs the REAL binlog code on it and prints one canonical
// line per command, in the same protocol as lean/Driver/Main.lean.
#include <binlog/Entries.hpp>
#include <binlog/EntryStream.hpp>
#include <binlog/EventFilter.hpp>
#include <binlog/EventStream.hpp>
#include <binlog/PrettyPrinter.hpp>
#include <binlog/TextOutputStream.hpp>
#include <binlog/detail/SegmentedMap.hpp>

#include "../bin/printers.hpp"

#include <algorithm>
#include <cstdint>
#include <cstring>
#include <iostream>
#include <map>
#include <sstream>
#include <string>
#include <vector>

namespace {

std::string hex(const char* p, std::size_t n)
{
  static const char* d = "0123456789abcdef";
  std::string s;
  s.reserve(2 * n);
  for (std::size_t i = 0; i < n; ++i)
  {
    const unsigned char c = static_cast<unsigned char>(p[i]);
    s.push_back(d[c >> 4]);
    s.push_back(d[c & 15]);
  }
  return s;
}
std::string hex(const std::string& s) { return hex(s.data(), s.size()); }

bool unhex(const std::string& h, std::string& out)
{
  out.clear();
  if (h == "-") { return true; }
  if (h.size() % 2 != 0) { return false; }
  auto val = [](char c) -> int {
    if ('0' <= c && c <= '9') { return c - '0'; }
    if ('a' <= c && c <= 'f') { return c - 'a' + 10; }
    if ('A' <= c && c <= 'F') { return c - 'A' + 10; }
    return -1;
  };
  for (std::size_t i = 0; i < h.size(); i += 2)
  {
    const int a = val(h[i]), b = val(h[i + 1]);
    if (a < 0 || b < 0) { return false; }
    out.push_back(char(a * 16 + b));
  }
  return true;
}

std::vector<std::string> split(const std::string& s, char sep)
{
  std::vector<std::string> r;
  std::string cur;
  for (char c : s)
  {
    if (c == sep) { r.push_back(cur); cur.clear(); }
    else { cur.push_back(c); }
  }
  r.push_back(cur);
  return r;
}

bool unhexList(const std::string& s, std::vector<std::string>& out)
{
  out.clear();
  if (s == "-") { return true; }
  for (const std::string& h : split(s, ','))
  {
    std::string b;
    if (h.empty()) { out.push_back(b); continue; }
    if (! unhex(h, b)) { return false; }
    out.push_back(b);
  }
  return true;
}

// exception text -> error kind of the model
std::string errKind(const std::exception& ex)
{
  const std::string w = ex.what();
  if (w.rfind("Range overflow", 0) == 0) { return "overflow"; }
  if (w.rfind("Event has invalid source id", 0) == 0) { return "invalid-source"; }
  if (w.rfind("Failed to read entry size", 0) == 0) { return "trunc-size"; }
  if (w.rfind("Failed to read entry payload", 0) == 0) { return "trunc-payload"; }
  if (w.rfind("Recursion limit", 0) == 0) { return "recursion"; }
  if (w.rfind("Invalid", 0) == 0) { return "invalid-tag"; }
  return "other:" + w;
}

std::string showEvent(const binlog::Event& e, const binlog::WriterProp& wp, const binlog::ClockSync& cs)
{
  std::ostringstream s;
  const binlog::EventSource& src = *e.source;
  binlog::Range args = e.arguments;
  const std::size_t n = args.size();
  const char* ap = n ? args.view(n) : "";
  s << "E(" << src.id << ',' << std::uint16_t(src.severity) << ',' << hex(src.category) << ',' << hex(src.function)
    << ',' << hex(src.file) << ',' << src.line << ',' << hex(src.formatString) << ',' << hex(src.argumentTags)
    << '|' << e.clockValue << '|' << hex(ap, n)
    << '|' << wp.id << ',' << hex(wp.name) << ',' << wp.batchSize
    << '|' << cs.clockValue << ',' << cs.clockFrequency << ',' << cs.nsSinceEpoch << ',' << std::uint32_t(cs.tzOffset) << ',' << hex(cs.tzName) << ')';
  return s.str();
}

// read everything the stream currently holds; continue after entry-level exceptions;
// returns "clean" / "trunc-size" / "trunc-payload" / "stopped"
std::string readLoop(binlog::EventStream& es, binlog::IstreamEntryStream& entries, std::istream& in,
                     std::string& items, bool& first)
{
  while (true)
  {
    const std::streamoff before = std::streamoff(in.tellg());
    try
    {
      const binlog::Event* e = es.nextEvent(entries);
      if (e == nullptr)
      {
        // end of input, or a size-0 entry: tell them apart by whether anything was consumed
        in.clear();
        const std::streamoff after = std::streamoff(in.tellg());
        in.seekg(0, std::ios_base::end);
        const std::streamoff end = std::streamoff(in.tellg());
        in.seekg(after);
        (void)before;
        if (after == end) { return "clean"; }
        return "stopped";
      }
      if (! first) { items += ';'; }
      first = false;
      items += showEvent(*e, es.writerProp(), es.clockSync());
    }
    catch (const std::exception& ex)
    {
      const std::string k = errKind(ex);
      if (k == "trunc-size" || k == "trunc-payload") { return k; }
      if (! first) { items += ';'; }
      first = false;
      items += "X(" + k + ")";
    }
  }
}

std::string cmdReadAll(const std::string& file)
{
  std::stringstream in(file, std::ios_base::in | std::ios_base::out | std::ios_base::binary);
  binlog::IstreamEntryStream entries(in);
  binlog::EventStream es;
  std::string items;
  bool first = true;
  const std::string tail = readLoop(es, entries, in, items, first);
  in.clear();
  const std::streamoff pos = std::streamoff(in.tellg());
  std::ostringstream s;
  s << "items=" << items << " tail=" << tail << " consumed=" << pos;
  return s.str();
}

std::string cmdResume(const std::vector<std::string>& pieces)
{
  std::stringstream in(std::ios_base::in | std::ios_base::out | std::ios_base::binary);
  binlog::IstreamEntryStream entries(in);
  binlog::EventStream es;
  std::string items;
  bool first = true;
  bool stopped = false;
  for (const std::string& pc : pieces)
  {
    if (stopped) { break; }
    in.clear();
    in.write(pc.data(), std::streamsize(pc.size()));
    const std::string tail = readLoop(es, entries, in, items, first);
    if (tail == "stopped") { stopped = true; }
  }
  in.clear();
  const std::streamoff pos = std::streamoff(in.tellg());
  std::ostringstream s;
  s << "items=" << items << " pos=" << (stopped ? 0 : pos) << " stopped=" << (stopped ? "true" : "false");
  return s.str();
}

bool parsePred(const std::string& p, binlog::EventFilter::Predicate& pred)
{
  const std::vector<std::string> f = split(p, ':');
  if (f.size() == 2 && f[0] == "sev")
  {
    const unsigned long n = std::stoul(f[1]);
    pred = [n](const binlog::EventSource& s) { return std::uint16_t(s.severity) >= n; };
    return true;
  }
  if (f.size() == 2 && f[0] == "cat")
  {
    std::string c; if (! f[1].empty() && ! unhex(f[1], c)) { return false; }
    pred = [c](const binlog::EventSource& s) { return s.category == c; };
    return true;
  }
  if (f.size() == 3 && f[0] == "line")
  {
    const unsigned long long m = std::stoull(f[1]), k = std::stoull(f[2]);
    pred = [m, k](const binlog::EventSource& s) { return m != 0 && s.line % m == k; };
    return true;
  }
  if (f.size() == 2 && f[0] == "fn")
  {
    std::string c; if (! f[1].empty() && ! unhex(f[1], c)) { return false; }
    pred = [c](const binlog::EventSource& s) { return s.function.compare(0, c.size(), c) == 0 && s.function.size() >= c.size(); };
    return true;
  }
  if (f.size() == 1 && f[0] == "all") { pred = [](const binlog::EventSource&) { return true; }; return true; }
  if (f.size() == 1 && f[0] == "none") { pred = [](const binlog::EventSource&) { return false; }; return true; }
  return false;
}

struct StringOut
{
  std::string s;
  StringOut& write(const char* p, std::streamsize n) { s.append(p, std::size_t(n)); return *this; }
};

std::string cmdFilter(const std::string& p, const std::vector<std::string>& chunks)
{
  binlog::EventFilter::Predicate pred;
  if (! parsePred(p, pred)) { return "bad-op"; }
  binlog::EventFilter filter(pred);
  StringOut out;
  std::string totals, err = "-";
  std::size_t i = 0;
  for (const std::string& c : chunks)
  {
    try
    {
      const std::size_t t = filter.writeAllowed(c.data(), c.size(), out);
      if (! totals.empty()) { totals += ','; }
      totals += std::to_string(t);
    }
    catch (const std::exception& ex)
    {
      err = errKind(ex) + "@" + std::to_string(i);
      break;
    }
    ++i;
  }
  return "out=" + hex(out.s) + " totals=" + totals + " err=" + err;
}

std::string cmdSegMap(const std::vector<std::string>& ops)
{
  binlog::detail::SegmentedMap<std::uint64_t> m;
  std::map<std::uint64_t, std::uint64_t> ref;
  std::string finds;
  bool first = true;
  bool refOk = true;
  for (const std::string& op : ops)
  {
    if (op.empty()) { continue; }
    if (op[0] == 'e')
    {
      const std::vector<std::string> kv = split(op.substr(1), ':');
      if (kv.size() != 2) { return "bad-op"; }
      const std::uint64_t k = std::stoull(kv[0]), v = std::stoull(kv[1]);
      m.emplace(k, v);
      ref[k] = v;
    }
    else if (op[0] == 'f')
    {
      const std::uint64_t k = std::stoull(op.substr(1));
      const std::uint64_t* r = m.find(k);
      if (! first) { finds += ','; }
      first = false;
      finds += (r == nullptr) ? "none" : std::to_string(*r);
      const auto it = ref.find(k);
      if ((it == ref.end()) != (r == nullptr) || (r != nullptr && *r != it->second)) { refOk = false; }
    }
    else { return "bad-op"; }
  }
  // the two vectors are private; they are reconstructed through the public interface by probing
  // is not possible in general, so they are read through a layout-compatible mirror
  struct Mirror { std::vector<std::uint64_t> offsets; std::vector<std::vector<std::uint64_t>> segments; };
  std::string offs, segs;
  if constexpr (sizeof(Mirror) == sizeof(m))
  {
    const Mirror& mm = *reinterpret_cast<const Mirror*>(&m);
    for (std::size_t i = 0; i < mm.offsets.size(); ++i) { if (i) { offs += ','; } offs += std::to_string(mm.offsets[i]); }
    for (std::size_t i = 0; i < mm.segments.size(); ++i)
    {
      if (i) { segs += '|'; }
      for (std::size_t j = 0; j < mm.segments[i].size(); ++j) { if (j) { segs += ','; } segs += std::to_string(mm.segments[i][j]); }
    }
  }
  else
  {
    // the class no longer has exactly the two vectors the model mirrors: the internal structure cannot be
    // compared (the correspondence reports that), the observable behaviour (finds, size, std::map oracle) still is
    offs = "layout-changed"; segs = "layout-changed";
  }
  std::string r = "finds=" + finds + " offsets=" + offs + " segments=" + segs + " size=" + std::to_string(m.size());
  if (! refOk) { r += " STDMAP-MISMATCH"; }
  return r;
}

std::string cmdPrint(bool sorted, const std::string& file)
{
  std::istringstream in(file, std::ios_base::in | std::ios_base::binary);
  std::ostringstream out;
  std::string err = "-";
  try
  {
    if (sorted) { printSortedEvents(in, out, "%r %I %S %n %t %L\n", "%Y"); }
    else { printEvents(in, out, "%r %I %S %n %t %L\n", "%Y"); }
  }
  catch (const std::exception& ex) { err = errKind(ex); }
  return "text=" + hex(out.str()) + " err=" + err;
}

bool parseClockSync(const std::string& s, binlog::ClockSync& cs)
{
  const std::vector<std::string> f = split(s, ',');
  if (f.size() != 5) { return false; }
  cs.clockValue = std::stoull(f[0]);
  cs.clockFrequency = std::stoull(f[1]);
  cs.nsSinceEpoch = std::stoull(f[2]);
  cs.tzOffset = std::int32_t(std::uint32_t(std::stoull(f[3])));
  std::string name;
  if (! f[4].empty() && ! unhex(f[4], name)) { return false; }
  cs.tzName = name;
  return true;
}

std::string printWith(const std::string& fmt, const std::string& dateFmt, const binlog::ClockSync& cs, std::uint64_t clock)
{
  binlog::EventSource src;
  binlog::Event ev;
  ev.source = &src;
  ev.clockValue = clock;
  binlog::WriterProp wp;
  binlog::PrettyPrinter pp(fmt, dateFmt);
  std::ostringstream out;
  try { pp.printEvent(out, ev, wp, cs); }
  catch (const std::exception& ex) { return "ERR:" + errKind(ex); }
  return hex(out.str());
}

std::string cmdTime(const std::string& dateFmt, const binlog::ClockSync& cs, std::uint64_t clock)
{
  return "local=" + printWith("%d", dateFmt, cs, clock) + " utc=" + printWith("%u", dateFmt, cs, clock);
}

// ONE pretty printer per field (%d, %u) prints a sequence of instants, each under its own clock sync
std::string cmdTimeSeq(const std::string& dateFmt, const std::vector<std::pair<binlog::ClockSync, std::uint64_t>>& items)
{
  binlog::PrettyPrinter ppLocal("%d", dateFmt);
  binlog::PrettyPrinter ppUtc("%u", dateFmt);
  std::string locals, utcs;
  for (std::size_t i = 0; i < items.size(); ++i)
  {
    binlog::EventSource src;
    binlog::Event ev;
    ev.source = &src;
    ev.clockValue = items[i].second;
    binlog::WriterProp wp;
    if (i) { locals += ','; utcs += ','; }
    {
      std::ostringstream out;
      try { ppLocal.printEvent(out, ev, wp, items[i].first); locals += hex(out.str()); }
      catch (const std::exception& ex) { locals += "ERR:" + errKind(ex); }
    }
    {
      std::ostringstream out;
      try { ppUtc.printEvent(out, ev, wp, items[i].first); utcs += hex(out.str()); }
      catch (const std::exception& ex) { utcs += "ERR:" + errKind(ex); }
    }
  }
  return "local=" + locals + " utc=" + utcs;
}

// the loop of printEvents / printSortedEvents with per-event buffering, so that the partial text of
// an event whose printing throws can be told apart from the complete events
// ONE TextOutputStream, write() called once per chunk (exceptions caught per call): the text on the output and the
// error kind of each call
std::string cmdTextOut(const std::string& fmt, const std::string& dateFmt, const std::vector<std::string>& chunks)
{
  std::ostringstream out;
  binlog::TextOutputStream tos(out, fmt, dateFmt);
  std::string errs;
  for (std::size_t i = 0; i < chunks.size(); ++i)
  {
    if (i) { errs += ','; }
    try { tos.write(chunks[i].data(), std::streamsize(chunks[i].size())); errs += "-"; }
    catch (const std::exception& ex) { errs += errKind(ex); }
  }
  return "text=" + hex(out.str()) + " errs=" + errs;
}

std::string cmdBread(bool sorted, const std::string& fmt, const std::string& dateFmt, const std::string& file)
{
  std::istringstream in(file, std::ios_base::in | std::ios_base::binary);
  binlog::IstreamEntryStream entries(in);
  binlog::EventStream es;
  binlog::PrettyPrinter pp(fmt, dateFmt);
  std::vector<std::pair<std::uint64_t, std::string>> lines;
  std::string err = "-";
  try
  {
    while (const binlog::Event* e = es.nextEvent(entries))
    {
      std::ostringstream one;
      pp.printEvent(one, *e, es.writerProp(), es.clockSync());
      lines.emplace_back(e->clockValue, one.str());
    }
  }
  catch (const std::exception& ex) { err = errKind(ex); }
  if (sorted)
  {
    std::stable_sort(lines.begin(), lines.end(), [](const auto& a, const auto& b) { return a.first < b.first; });
  }
  std::string text;
  for (const auto& l : lines) { text += l.second; }
  return "text=" + hex(text) + " err=" + err;
}

} // namespace

int main()
{
  std::ios::sync_with_stdio(false);
  std::string line;
  while (std::getline(std::cin, line))
  {
    const std::vector<std::string> w = split(line, ' ');
    std::string r = "bad-op";
    try
    {
      if (w.size() == 2 && w[0] == "readall") { std::string b; if (unhex(w[1], b)) { r = cmdReadAll(b); } }
      else if (w.size() == 2 && w[0] == "resume") { std::vector<std::string> bs; if (unhexList(w[1], bs)) { r = cmdResume(bs); } }
      else if (w.size() == 3 && w[0] == "filter") { std::vector<std::string> bs; if (unhexList(w[2], bs)) { r = cmdFilter(w[1], bs); } }
      else if (! w.empty() && w[0] == "segmap") { r = cmdSegMap(std::vector<std::string>(w.begin() + 1, w.end())); }
      else if (w.size() == 4 && w[0] == "time")
      {
        std::string f; binlog::ClockSync cs;
        if (unhex(w[1], f) && parseClockSync(w[2], cs)) { r = cmdTime(f, cs, std::stoull(w[3])); }
      }
      else if (w.size() >= 3 && w[0] == "timeseq")
      {
        std::string f;
        bool okc = unhex(w[1], f);
        std::vector<std::pair<binlog::ClockSync, std::uint64_t>> items;
        for (std::size_t i = 2; i < w.size() && okc; ++i)
        {
          const std::vector<std::string> ck = split(w[i], '/');
          binlog::ClockSync cs;
          if (ck.size() != 2 || ! parseClockSync(ck[0], cs)) { okc = false; break; }
          items.emplace_back(cs, std::stoull(ck[1]));
        }
        if (okc) { r = cmdTimeSeq(f, items); }
      }
      else if (w.size() == 5 && w[0] == "bread")
      {
        std::string f, d, b;
        if (unhex(w[2], f) && unhex(w[3], d) && unhex(w[4], b)) { r = cmdBread(w[1] == "1", f, d, b); }
      }
      else if (w.size() == 4 && w[0] == "textout")
      {
        std::string f, d;
        std::vector<std::string> chunks;
        bool okc = unhex(w[1], f) && unhex(w[2], d);
        for (const std::string& h : split(w[3], ','))
        {
          std::string c;
          if (h != "-" && ! unhex(h, c)) { okc = false; }
          chunks.push_back(c);
        }
        if (okc) { r = cmdTextOut(f, d, chunks); }
      }
      else if (w.size() == 3 && w[0] == "print") { std::string b; if (unhex(w[2], b)) { r = cmdPrint(w[1] == "1", b); } }
    }
    catch (const std::exception& ex) { r = std::string("harness-exception:") + ex.what(); }
    std::cout << r << "\n" << std::flush;
  }
  return 0;
}
