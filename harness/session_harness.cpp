// Sequential correspondence harness for Session / SessionWriter (C02, C03, C11, C13): runs operation scripts on
// the REAL classes and prints every OutputStream::write call (with call boundaries) and every ConsumeResult.
//
// Injection (`@` prefix): an op marked `@` is not executed in its turn but AT THE FIRST MUTEX UNLOCK performed inside the next
// unmarked op (on behalf of another thread that was waiting for the session mutex).  As long as an operation holds the mutex
// for its whole body that unlock is its last action and the run equals the sequential one `host; injected…`; a body that gives
// the mutex up in the middle lets the injected operations in at that point — the real code then executes an interleaving no
// sequential script can produce.  The mutex is observed by token renaming (`mutex` -> a std::mutex wrapper with a hook), the
// binlog headers are unchanged.
//
// Injection into a write (`%` prefix, `log` ops only): the op is executed by "its own thread" WHILE the next unmarked op
// (a consume) is inside the OutputStream::write call that carries the queue data of the op's writer, i.e. after that
// channel was polled (beginRead) and before it is released (endRead).  addEvent takes no lock, so this interleaving is always
// possible; the event is committed too late for this poll, so the run must equal the sequential one `host; log`.  (The script
// generator only injects logs that need neither a registration nor a channel replacement, which would take the mutex the
// consumer holds.)  If the host never writes data of that writer the op simply runs after it.
#include <algorithm>
#include <atomic>
#include <cstdint>
#include <cstdlib>
#include <cstring>
#include <deque>
#include <functional>
#include <iostream>
#include <map>
#include <memory>
#include <mutex>
#include <new>
#include <sstream>
#include <string>
#include <utility>
#include <vector>

// Allocation failure (`logf` op): while g_fail_array_new is set every `operator new[]` throws std::bad_alloc.  The only array
// allocation on the logging path is the queue buffer of a replacement channel (Session::Channel), so a `logf` whose event does
// not fit the writer's queue runs SessionWriter::replaceChannel with a failing allocation: addEvent must return false and leave
// the writer attached to its old, still registered channel.
static bool g_fail_array_new = false;
static unsigned g_failed_array_news = 0;
void* operator new[](std::size_t size)
{
  if (g_fail_array_new) { ++g_failed_array_news; throw std::bad_alloc(); }
  void* p = std::malloc(size ? size : 1);
  if (p == nullptr) { throw std::bad_alloc(); }
  return p;
}
void operator delete[](void* p) noexcept { std::free(p); }
void operator delete[](void* p, std::size_t) noexcept { std::free(p); }

static std::function<void()> g_after_unlock;
static std::function<void(const char*, std::size_t)> g_on_write;   // called at the START of every OutputStream::write

namespace std {
class inj_mutex
{
  std::mutex _m;
public:
  void lock() { _m.lock(); }
  bool try_lock() { return _m.try_lock(); }
  void unlock() { _m.unlock(); if (g_after_unlock) { g_after_unlock(); } }
};
} // namespace std

#define mutex inj_mutex
#include <binlog/Session.hpp>
#include <binlog/SessionWriter.hpp>
#undef mutex

namespace {

std::string hex(const char* p, std::size_t n)
{
  static const char* d = "0123456789abcdef";
  std::string s;
  for (std::size_t i = 0; i < n; ++i) { const unsigned char c = static_cast<unsigned char>(p[i]); s.push_back(d[c >> 4]); s.push_back(d[c & 15]); }
  return s;
}

bool unhex(const std::string& h, std::string& out)
{
  out.clear();
  if (h == "-" || h.empty()) { return true; }
  if (h.size() % 2) { return false; }
  auto val = [](char c) -> int { if ('0' <= c && c <= '9') return c - '0'; if ('a' <= c && c <= 'f') return c - 'a' + 10; return -1; };
  for (std::size_t i = 0; i < h.size(); i += 2) { const int a = val(h[i]), b = val(h[i + 1]); if (a < 0 || b < 0) return false; out.push_back(char(a * 16 + b)); }
  return true;
}

// arguments of an event given as raw bytes
struct Raw { std::string bytes; };

struct RecordingOut
{
  std::vector<std::string> writes;
  RecordingOut& write(const char* p, std::streamsize n)
  {
    writes.emplace_back(p, std::size_t(n));     // copy first: what was handed to the output is what is compared
    if (g_on_write) { g_on_write(writes.back().data(), writes.back().size()); }
    return *this;
  }
};

std::string showWrites(const RecordingOut& o)
{
  std::string s;
  for (std::size_t i = 0; i < o.writes.size(); ++i) { if (i) { s += ','; } s += hex(o.writes[i].data(), o.writes[i].size()); }
  return s;
}

std::string showResult(const binlog::Session::ConsumeResult& r)
{
  std::ostringstream s;
  s << "bytes=" << r.bytesConsumed << " total=" << r.totalBytesConsumed << " polled=" << r.channelsPolled << " removed=" << r.channelsRemoved;
  return s.str();
}

} // namespace

namespace mserialize {
template <>
struct CustomSerializer<Raw>
{
  template <typename OutputStream>
  static void serialize(const Raw& r, OutputStream& out) { out.write(r.bytes.data(), std::streamsize(r.bytes.size())); }
  static std::size_t serialized_size(const Raw& r) { return r.bytes.size(); }
};
} // namespace mserialize

int main()
{
  std::ios::sync_with_stdio(false);
  std::string line;
  while (std::getline(std::cin, line))
  {
    // tokens; groups separated by "|"
    std::vector<std::vector<std::string>> groups(1);
    {
      std::istringstream in(line);
      std::string t;
      while (in >> t) { if (t == "|") { groups.emplace_back(); } else { groups.back().push_back(t); } }
    }
    if (groups.empty() || groups[0].size() != 6 || groups[0][0] != "session") { std::cout << "bad-op\n"; continue; }
    auto session = std::make_unique<binlog::Session>();
    {
      std::string name; unhex(groups[0][5], name);
      // the constructor registered the system clock sync: consume it away into a scratch output, then set ours
      // (the model starts from `init cs`: one clock sync pending)
    }
    // Session() appends the system clock sync to _clockSync; the model's `init cs` has exactly one entry.
    // To start from a known state the harness cannot remove it, so the script's first clock sync is
    // compared structurally: the harness prints writes with the FIRST entry of the first write replaced by the
    // given clock sync.  Instead of patching bytes we exploit setClockSync semantics: nothing to do here; see below.
    std::map<unsigned, std::unique_ptr<binlog::SessionWriter>> writers;
    std::string out;
    bool first = true;
    bool firstConsume = true;
    // the size of the system clock sync entry the Session constructor wrote (to cut it off the first metadata write)
    std::size_t sysSyncSize = 0;
    {
      binlog::detail::VectorOutputStream tmp;
      sysSyncSize = binlog::serializeSizePrefixedTagged(binlog::systemClockSync(), tmp);
    }
    {
      std::string name; unhex(groups[0][5], name);
      binlog::ClockSync cs{std::stoull(groups[0][1]), std::stoull(groups[0][2]), std::stoull(groups[0][3]),
                           std::int32_t(std::uint32_t(std::stoull(groups[0][4]))), name};
      session->setClockSync(cs);
    }
    auto cutSysSync = [&](RecordingOut& o, binlog::Session::ConsumeResult& r, bool clockSyncWritten)
    {
      // remove the system clock sync entry (always the first entry of the _clockSync buffer)
      if (clockSyncWritten && ! o.writes.empty() && o.writes[0].size() >= sysSyncSize)
      {
        o.writes[0].erase(0, sysSyncSize);
        r.bytesConsumed -= sysSyncSize;
      }
    };
    std::size_t cutTotal = 0;
    bool consumeClockSyncPending = true;
    std::vector<std::string> segs(groups.size());
    std::vector<std::size_t> pending;     // deferred (`@`) ops waiting for the next unlock
    std::vector<std::size_t> pendingW;    // deferred (`%`) ops waiting for a data write of their writer
    bool inHook = false;
    std::function<std::string(std::size_t)> runOp = [&](std::size_t g) -> std::string
    {
      std::vector<std::string> t = groups[g];
      if (! t.empty() && ! t[0].empty() && (t[0][0] == '@' || t[0][0] == '%')) { t[0].erase(0, 1); }
      std::string seg = "bad-op";
      try
      {
        if (t[0] == "cw" && t.size() == 5)
        {
          std::string name; unhex(t[4], name);
          const unsigned w = unsigned(std::stoul(t[1]));
          writers[w] = std::make_unique<binlog::SessionWriter>(*session, std::stoull(t[2]), std::stoull(t[3]), name);
          seg = "cw";
        }
        else if (t[0] == "sid" && t.size() == 3)
        {
          auto it = writers.find(unsigned(std::stoul(t[1])));
          if (it == writers.end() || ! it->second) { seg = "disabled"; } else { it->second->setId(std::stoull(t[2])); seg = "sid"; }
        }
        else if (t[0] == "sname" && t.size() == 3)
        {
          std::string name; unhex(t[2], name);
          auto it = writers.find(unsigned(std::stoul(t[1])));
          if (it == writers.end() || ! it->second) { seg = "disabled"; } else { it->second->setName(name); seg = "sname"; }
        }
        else if (t[0] == "src" && t.size() == 8)
        {
          binlog::EventSource src;
          src.severity = binlog::Severity(std::uint16_t(std::stoul(t[1])));
          unhex(t[2], src.category); unhex(t[3], src.function); unhex(t[4], src.file);
          src.line = std::stoull(t[5]);
          unhex(t[6], src.formatString); unhex(t[7], src.argumentTags);
          const std::uint64_t id = session->addEventSource(src);
          seg = "src id=" + std::to_string(id);
        }
        else if (t[0] == "log" && t.size() == 5)
        {
          auto it = writers.find(unsigned(std::stoul(t[1])));
          if (it == writers.end() || ! it->second) { seg = "disabled"; }
          else
          {
            Raw raw; unhex(t[4], raw.bytes);
            // detect replacement through the session: number of channels is not public; use the writer's capacity change
            // proxy: compare polled channel counts at the next consume.  Here: report ok only.
            const bool ok = it->second->addEvent(std::stoull(t[2]), std::stoull(t[3]), raw);
            seg = std::string("log ok=") + (ok ? "1" : "0");
          }
        }
        else if (t[0] == "logf" && t.size() == 5)
        {
          auto it = writers.find(unsigned(std::stoul(t[1])));
          if (it == writers.end() || ! it->second) { seg = "disabled"; }
          else
          {
            Raw raw; unhex(t[4], raw.bytes);
            const unsigned before = g_failed_array_news;
            g_fail_array_new = true;
            const bool ok = it->second->addEvent(std::stoull(t[2]), std::stoull(t[3]), raw);
            g_fail_array_new = false;
            seg = std::string("log ok=") + (ok ? "1" : "0") + " af=" + std::to_string(g_failed_array_news - before);
          }
        }
        else if (t[0] == "dw" && t.size() == 2)
        {
          auto it = writers.find(unsigned(std::stoul(t[1])));
          if (it == writers.end() || ! it->second) { seg = "disabled"; } else { it->second.reset(); seg = "dw"; }
        }
        else if (t[0] == "cs" && t.size() == 6)
        {
          std::string name; unhex(t[5], name);
          binlog::ClockSync cs{std::stoull(t[1]), std::stoull(t[2]), std::stoull(t[3]), std::int32_t(std::uint32_t(std::stoull(t[4]))), name};
          session->setClockSync(cs);
          consumeClockSyncPending = true;
          seg = "cs";
        }
        else if (t[0] == "consume")
        {
          RecordingOut o;
          binlog::Session::ConsumeResult r = session->consume(o);
          cutSysSync(o, r, consumeClockSyncPending);
          if (consumeClockSyncPending) { cutTotal += sysSyncSize; }
          consumeClockSyncPending = false;
          r.totalBytesConsumed -= cutTotal;
          seg = "consume writes=" + showWrites(o) + " " + showResult(r);
          (void)firstConsume;
        }
        else if (t[0] == "rotate")
        {
          RecordingOut o;
          binlog::Session::ConsumeResult r = session->reconsumeMetadata(o);
          cutSysSync(o, r, true);
          cutTotal += sysSyncSize;
          r.totalBytesConsumed -= cutTotal;
          seg = "rotate writes=" + showWrites(o) + " " + showResult(r);
        }
      }
      catch (const std::exception& ex) { seg = std::string("exception:") + ex.what(); }
      return seg;
    };
    auto flush = [&]()
    {
      if (inHook || pending.empty()) { return; }
      inHook = true;
      std::vector<std::size_t> todo;
      todo.swap(pending);
      for (std::size_t p : todo) { segs[p] = runOp(p); }
      inHook = false;
    };
    g_after_unlock = flush;
    auto flushW = [&](bool all, std::uint32_t writer)
    {
      if (inHook || pendingW.empty()) { return; }
      inHook = true;
      std::vector<std::size_t> keep;
      std::vector<std::size_t> todo;
      for (std::size_t p : pendingW)
      {
        const bool mine = groups[p].size() > 1 && std::stoul(groups[p][1]) == writer;
        if (all || mine) { todo.push_back(p); } else { keep.push_back(p); }
      }
      pendingW.swap(keep);
      for (std::size_t p : todo) { segs[p] = runOp(p); }
      inHook = false;
    };
    g_on_write = [&](const char* p, std::size_t n)
    {
      // a write that starts with an event entry: size(4) tag(8, top bit clear) clock(8) then the script's (writer, seq) pair
      if (n < 4 + 16 + 8) { return; }
      std::uint64_t tag = 0; memcpy(&tag, p + 4, 8);
      if ((tag >> 63) != 0) { return; }
      std::uint32_t w = 0; memcpy(&w, p + 4 + 16, 4);
      flushW(false, w);
    };
    for (std::size_t g = 1; g < groups.size(); ++g)
    {
      if (groups[g].empty()) { continue; }
      if (! groups[g][0].empty() && groups[g][0][0] == '@') { pending.push_back(g); continue; }
      if (! groups[g][0].empty() && groups[g][0][0] == '%') { pendingW.push_back(g); continue; }
      segs[g] = runOp(g);
      flush();        // the host took no mutex: the injected ops simply run after it
      flushW(true, 0); // the host wrote no data of that writer: the op runs after it
    }
    flush();
    flushW(true, 0);
    g_after_unlock = nullptr;
    g_on_write = nullptr;
    for (std::size_t g = 1; g < groups.size(); ++g)
    {
      if (groups[g].empty()) { continue; }
      if (! first) { out += ';'; }
      first = false;
      out += segs[g];
    }
    writers.clear();
    std::cout << out << "\n" << std::flush;
  }
  return 0;
}
