// Crash-image harness for C08: runs a session script on the REAL Session / SessionWriter and, at a chosen instant between two
// memory writes of the library (a BINLOG_VERIF_POINT hook, or an operation boundary), fork()s; the child dumps every writable
// mapping of the process (the "core") plus what had been written to the output so far, and exits.  The parent reports which
// log calls had completed at that instant.  The real brecovery is then run on the dump by the check.
#include <cstdint>
#include <cstdio>
#include <cstdlib>
#include <cstring>
#include <fstream>
#include <iostream>
#include <map>
#include <memory>
#include <sstream>
#include <string>
#include <vector>
#include <sys/types.h>
#include <sys/wait.h>
#include <unistd.h>

static std::string g_point;        // crash at the g_count-th hit of this point
static long g_count = -1;
static bool g_crashed = false;
static std::string g_output;       // everything consume has written so far
static std::string g_completed;    // "w:seq,w:seq,…" log calls that returned true so far
static std::map<std::string, long> g_hits;

static void dump_and_exit()
{
  const char* path = getenv("VERIF_DUMP");
  if (! path) { _exit(3); }
  {
    std::ofstream o(std::string(path) + ".out", std::ios::binary);
    o.write(g_output.data(), std::streamsize(g_output.size()));
  }
  std::ifstream maps("/proc/self/maps");
  std::ofstream core(path, std::ios::binary);
  std::string line;
  while (std::getline(maps, line))
  {
    unsigned long lo = 0, hi = 0;
    char perms[8] = {0};
    if (sscanf(line.c_str(), "%lx-%lx %7s", &lo, &hi, perms) != 3) { continue; }
    if (perms[0] != 'r' || perms[1] != 'w') { continue; }
    if (line.find("[vvar]") != std::string::npos || line.find("[vsyscall]") != std::string::npos) { continue; }
    core.write(reinterpret_cast<const char*>(lo), std::streamsize(hi - lo));
  }
  core.flush();
  _exit(0);
}

static bool g_enabled = true;      // false while an earlier, unrelated session of the process runs (op `pre`)

static void verif_point(const char* name)
{
  if (! g_enabled) { return; }
  long& n = g_hits[name];
  ++n;
  if (! g_crashed && g_point == name && n == g_count)
  {
    g_crashed = true;
    std::cout.flush();
    const pid_t pid = fork();
    if (pid == 0) { dump_and_exit(); }
    int status = 0;
    waitpid(pid, &status, 0);
    std::cout << "CRASHED point=" << name << " hit=" << n << " completed=" << g_completed << " consumed=" << g_output.size() << "\n";
    std::cout.flush();
  }
}
#define BINLOG_VERIF_POINT_HOOK(name) verif_point(name)

#include <binlog/Session.hpp>
#include <binlog/SessionWriter.hpp>

namespace {

bool unhex(const std::string& h, std::string& out)
{
  out.clear();
  if (h == "-" || h.empty()) { return true; }
  auto val = [](char c) -> int { if ('0' <= c && c <= '9') return c - '0'; if ('a' <= c && c <= 'f') return c - 'a' + 10; return -1; };
  for (std::size_t i = 0; i + 1 < h.size(); i += 2) { out.push_back(char(val(h[i]) * 16 + val(h[i + 1]))); }
  return true;
}

struct Raw { std::string bytes; };

struct Out
{
  Out& write(const char* p, std::streamsize n) { g_output.append(p, std::size_t(n)); return *this; }
};

} // namespace

namespace mserialize {
template <>
struct CustomSerializer<Raw>
{
  template <typename OutputStream>
  static void serialize(const Raw& r, OutputStream& out) { out.write(r.bytes.data(), std::streamsize(r.bytes.size())); }
  static std::size_t serialized_size(const Raw& r) { return r.bytes.size(); }
};
} // namespace mserialize

int main()
{
  std::string line;
  if (! std::getline(std::cin, line)) { return 0; }
  std::vector<std::vector<std::string>> groups(1);
  {
    std::istringstream in(line);
    std::string t;
    while (in >> t) { if (t == "|") { groups.emplace_back(); } else { groups.back().push_back(t); } }
  }
  // first group: crash <point> <count>
  if (groups[0].size() != 3 || groups[0][0] != "crash") { std::cout << "bad-op\n"; return 0; }
  g_point = groups[0][1];
  g_count = std::stol(groups[0][2]);
  auto session = std::make_unique<binlog::Session>();
  std::map<unsigned, std::unique_ptr<binlog::SessionWriter>> writers;
  Out out;
  for (std::size_t g = 1; g < groups.size(); ++g)
  {
    const std::vector<std::string>& t = groups[g];
    if (t.empty()) { continue; }
    if (t[0] == "cw" && t.size() == 5)
    {
      std::string name; unhex(t[4], name);
      writers[unsigned(std::stoul(t[1]))] = std::make_unique<binlog::SessionWriter>(*session, std::stoull(t[2]), std::stoull(t[3]), name);
    }
    else if (t[0] == "src" && t.size() == 8)
    {
      binlog::EventSource src;
      src.severity = binlog::Severity(std::uint16_t(std::stoul(t[1])));
      unhex(t[2], src.category); unhex(t[3], src.function); unhex(t[4], src.file);
      src.line = std::stoull(t[5]);
      unhex(t[6], src.formatString); unhex(t[7], src.argumentTags);
      session->addEventSource(src);
    }
    else if (t[0] == "log" && t.size() == 5)
    {
      auto it = writers.find(unsigned(std::stoul(t[1])));
      if (it != writers.end() && it->second)
      {
        Raw raw; unhex(t[4], raw.bytes);
        if (it->second->addEvent(std::stoull(t[2]), std::stoull(t[3]), raw))
        {
          std::uint32_t w = 0, seq = 0;
          if (raw.bytes.size() >= 8) { memcpy(&w, raw.bytes.data(), 4); memcpy(&seq, raw.bytes.data() + 4, 4); }
          if (! g_completed.empty()) { g_completed += ','; }
          g_completed += std::to_string(w) + ":" + std::to_string(seq);
        }
      }
    }
    else if (t[0] == "dw" && t.size() == 2) { auto it = writers.find(unsigned(std::stoul(t[1]))); if (it != writers.end()) { it->second.reset(); } }
    else if (t[0] == "sname" && t.size() == 3) { std::string n; unhex(t[2], n); auto it = writers.find(unsigned(std::stoul(t[1]))); if (it != writers.end() && it->second) { it->second->setName(n); } }
    else if (t[0] == "cs" && t.size() == 6)
    {
      std::string name; unhex(t[5], name);
      session->setClockSync(binlog::ClockSync{std::stoull(t[1]), std::stoull(t[2]), std::stoull(t[3]), std::int32_t(std::uint32_t(std::stoull(t[4]))), name});
    }
    else if (t[0] == "pre" && t.size() == 3)
    {
      // an earlier session of the same process that is destroyed with unconsumed events: its queues stay in freed heap memory
      g_enabled = false;
      {
        binlog::Session old;
        binlog::SessionWriter w(old, std::stoull(t[1]));
        binlog::EventSource src;
        src.severity = binlog::Severity::info; src.formatString = "stale {}"; src.argumentTags = "I";
        const std::uint64_t id = old.addEventSource(src);
        for (std::uint32_t i = 0; i < std::stoul(t[2]); ++i)
        {
          Raw raw; raw.bytes.resize(8);
          const std::uint32_t wid = 9000;
          memcpy(&raw.bytes[0], &wid, 4); memcpy(&raw.bytes[4], &i, 4);
          w.addEvent(id, i, raw);
        }
      }
      g_enabled = true;
    }
    else if (t[0] == "other" && t.size() == 4)
    {
      // another LIVE session of the same process (a library's own session next to the default one) with unconsumed events:
      // its event source ids start at 1 again, its events carry writer id <t[1]>
      static std::vector<std::unique_ptr<binlog::Session>> others;
      static std::vector<std::unique_ptr<binlog::SessionWriter>> otherWriters;
      others.push_back(std::make_unique<binlog::Session>());
      binlog::Session& os = *others.back();
      os.setClockSync(binlog::ClockSync{1, 1000000000, 5, 0, "OT"});
      otherWriters.push_back(std::make_unique<binlog::SessionWriter>(os, std::stoull(t[2])));
      binlog::EventSource src;
      src.severity = binlog::Severity::warning; src.category = "othr"; src.formatString = "other {}"; src.argumentTags = "I";
      const std::uint64_t id = os.addEventSource(src);
      os.addEventSource(src);
      const std::uint32_t wid = std::uint32_t(std::stoul(t[1]));
      for (std::uint32_t i = 0; i < std::stoul(t[3]) && ! g_crashed; ++i)
      {
        Raw raw; raw.bytes.resize(8);
        memcpy(&raw.bytes[0], &wid, 4); memcpy(&raw.bytes[4], &i, 4);
        if (otherWriters.back()->addEvent(id, i, raw))
        {
          if (! g_completed.empty()) { g_completed += ','; }
          g_completed += std::to_string(wid) + ":" + std::to_string(i);
        }
      }
    }
    else if (t[0] == "consume") { session->consume(out); }
    else if (t[0] == "rotate") { session->reconsumeMetadata(out); }
    verif_point("op-boundary");
    if (g_crashed) { break; }
  }
  if (! g_crashed) { std::cout << "NOCRASH hits="; for (auto& kv : g_hits) { std::cout << kv.first << ":" << kv.second << ","; } std::cout << "\n"; }
  writers.clear();
  return 0;
}
