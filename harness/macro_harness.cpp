// Correspondence harness for the log macros (C19): every macro family x severity as its own call site; argument
// expressions bump a counter when evaluated.  Script ops: `min <session 0|1> <severity>`, `stmt <site>`, `reseat`.
// After each statement both sessions are consumed and the event / source entries written are counted.
#include <binlog/binlog.hpp>
#include <cstdint>
#include <iostream>
#include <sstream>
#include <string>
#include <vector>

static int g_evals = 0;
static int bump() { return ++g_evals; }

struct CountingOut
{
  std::size_t events = 0, sources = 0;
  std::string pending;
  CountingOut& write(const char* p, std::streamsize n)
  {
    std::size_t pos = 0;
    const std::size_t len = std::size_t(n);
    while (pos + 12 <= len)
    {
      std::uint32_t size; std::uint64_t tag;
      memcpy(&size, p + pos, 4); memcpy(&tag, p + pos + 4, 8);
      if (tag == std::uint64_t(-1)) { ++sources; } else if ((tag >> 63) == 0) { ++events; }
      pos += 4 + size;
    }
    return *this;
  }
};

static void run_site(int site, binlog::SessionWriter& w)
{
  switch (site)
  {
    case 0: BINLOG_TRACE("s0 "); break;
    case 1: BINLOG_TRACE("s1 {} {}", bump(), bump()); break;
    case 2: BINLOG_TRACE_W(w, "s2 "); break;
    case 3: BINLOG_TRACE_W(w, "s3 {} {}", bump(), bump()); break;
    case 4: BINLOG_TRACE_C(mycat, "s4 "); break;
    case 5: BINLOG_TRACE_C(mycat, "s5 {} {}", bump(), bump()); break;
    case 6: BINLOG_TRACE_WC(w, mycat, "s6 "); break;
    case 7: BINLOG_TRACE_WC(w, mycat, "s7 {} {}", bump(), bump()); break;
    case 8: BINLOG_DEBUG("s8 "); break;
    case 9: BINLOG_DEBUG("s9 {} {}", bump(), bump()); break;
    case 10: BINLOG_DEBUG_W(w, "s10 "); break;
    case 11: BINLOG_DEBUG_W(w, "s11 {} {}", bump(), bump()); break;
    case 12: BINLOG_DEBUG_C(mycat, "s12 "); break;
    case 13: BINLOG_DEBUG_C(mycat, "s13 {} {}", bump(), bump()); break;
    case 14: BINLOG_DEBUG_WC(w, mycat, "s14 "); break;
    case 15: BINLOG_DEBUG_WC(w, mycat, "s15 {} {}", bump(), bump()); break;
    case 16: BINLOG_INFO("s16 "); break;
    case 17: BINLOG_INFO("s17 {} {}", bump(), bump()); break;
    case 18: BINLOG_INFO_W(w, "s18 "); break;
    case 19: BINLOG_INFO_W(w, "s19 {} {}", bump(), bump()); break;
    case 20: BINLOG_INFO_C(mycat, "s20 "); break;
    case 21: BINLOG_INFO_C(mycat, "s21 {} {}", bump(), bump()); break;
    case 22: BINLOG_INFO_WC(w, mycat, "s22 "); break;
    case 23: BINLOG_INFO_WC(w, mycat, "s23 {} {}", bump(), bump()); break;
    case 24: BINLOG_WARN("s24 "); break;
    case 25: BINLOG_WARN("s25 {} {}", bump(), bump()); break;
    case 26: BINLOG_WARN_W(w, "s26 "); break;
    case 27: BINLOG_WARN_W(w, "s27 {} {}", bump(), bump()); break;
    case 28: BINLOG_WARN_C(mycat, "s28 "); break;
    case 29: BINLOG_WARN_C(mycat, "s29 {} {}", bump(), bump()); break;
    case 30: BINLOG_WARN_WC(w, mycat, "s30 "); break;
    case 31: BINLOG_WARN_WC(w, mycat, "s31 {} {}", bump(), bump()); break;
    case 32: BINLOG_ERROR("s32 "); break;
    case 33: BINLOG_ERROR("s33 {} {}", bump(), bump()); break;
    case 34: BINLOG_ERROR_W(w, "s34 "); break;
    case 35: BINLOG_ERROR_W(w, "s35 {} {}", bump(), bump()); break;
    case 36: BINLOG_ERROR_C(mycat, "s36 "); break;
    case 37: BINLOG_ERROR_C(mycat, "s37 {} {}", bump(), bump()); break;
    case 38: BINLOG_ERROR_WC(w, mycat, "s38 "); break;
    case 39: BINLOG_ERROR_WC(w, mycat, "s39 {} {}", bump(), bump()); break;
    case 40: BINLOG_CRITICAL("s40 "); break;
    case 41: BINLOG_CRITICAL("s41 {} {}", bump(), bump()); break;
    case 42: BINLOG_CRITICAL_W(w, "s42 "); break;
    case 43: BINLOG_CRITICAL_W(w, "s43 {} {}", bump(), bump()); break;
    case 44: BINLOG_CRITICAL_C(mycat, "s44 "); break;
    case 45: BINLOG_CRITICAL_C(mycat, "s45 {} {}", bump(), bump()); break;
    case 46: BINLOG_CRITICAL_WC(w, mycat, "s46 "); break;
    case 47: BINLOG_CRITICAL_WC(w, mycat, "s47 {} {}", bump(), bump()); break;
    default: break;
  }
}

int main()
{
  std::ios::sync_with_stdio(false);
  std::string line;
  // sites keep their static ids for the life of the process: one script per process run is the contract;
  // the driver restarts the model per line, so the harness handles ONE line per invocation.
  if (! std::getline(std::cin, line)) { return 0; }
  binlog::Session session;                   // session 1: writers passed explicitly (_W, _WC)
  binlog::SessionWriter w(session, 1 << 16);
  std::istringstream in(line);
  std::string tok;
  in >> tok; // "macro"
  std::string out;
  bool first = true;
  CountingOut total0, total1;
  while (in >> tok)
  {
    std::string seg;
    if (tok == "min")
    {
      int s; unsigned sev; in >> s >> sev;
      (s == 0 ? binlog::default_session() : session).setMinSeverity(binlog::Severity(std::uint16_t(sev)));
      seg = "min";
    }
    else if (tok == "reseat")
    {
      // the thread's default writer is re-seated onto the explicit session: the basic macro families log through it
      binlog::default_thread_local_writer() = binlog::SessionWriter(session, 1 << 16);
      seg = "reseat";
    }
    else if (tok == "stmt")
    {
      int site; in >> site;
      const int before = g_evals;
      run_site(site, w);
      CountingOut c;
      binlog::default_session().consume(c);
      session.consume(c);
      seg = "stmt events=" + std::to_string(c.events) + " sources=" + std::to_string(c.sources) + " evals=" + std::to_string(g_evals - before);
    }
    else { seg = "bad-op"; }
    if (! first) { out += ';'; }
    first = false;
    out += seg;
  }
  std::cout << out << "\n";
  return 0;
}
