// Release/acquire shim: view-based operational semantics of C++11 atomics (RC11 without load buffering)
// for running the REAL binlog headers on one OS thread with several LOGICAL threads.
//
//  * every atomic location has a history of messages (value + released view) in modification order;
//  * every logical thread has a view (location -> newest message index it has observed or that happens-before it);
//    a load may read ANY message at or after the thread's view of that location — which one is decided by
//    ra::choose (policy set by the harness), so stale reads that x86 never shows are executed by the real code;
//  * release store attaches the storing thread's view, acquire load joins it; relaxed load only remembers it for a
//    later acquire fence; RMWs read the newest message and continue the release sequence;
//  * mutex lock = acquire RMW on the mutex location, unlock = release store;
//  * shared_ptr: libstdc++'s orders — copy = relaxed increment, drop = acq_rel decrement, use_count() = relaxed load.
//
// The std names are redirected by token renaming (see harness/session_ra_harness.cpp): all standard headers are
// included first, then `atomic`, `mutex`, `lock_guard`, `shared_ptr`, `make_shared`, `atomic_thread_fence` are
// #defined to the ra_ names below, then the binlog headers are included unchanged.
#pragma once
#include <atomic>
#include <cstddef>
#include <cstdint>
#include <map>
#include <memory>
#include <mutex>
#include <string>
#include <utility>
#include <vector>

namespace ra {

using View = std::map<const void*, std::size_t>;

inline void join(View& a, const View& b)
{
  for (const auto& kv : b)
  {
    auto it = a.find(kv.first);
    if (it == a.end() || it->second < kv.second) { a[kv.first] = kv.second; }
  }
}

struct Thread
{
  View cur;   // what happens-before the thread's current point
  View acq;   // views of messages read by relaxed loads: joined by an acquire fence
  View rel;   // view at the last release fence
};

enum class Kind { index, usecount, other };

struct World
{
  std::map<int, Thread> threads;
  int current = 0;
  // staleness policy per kind: 0 = newest message, 1 = oldest message the thread may still read, 2 = random
  int policy[3] = {0, 0, 0};
  std::uint64_t rng = 88172645463325252ULL;
  std::string trace;          // event trace of the current operation
  std::size_t staleReads = 0; // how many loads did not read the newest message

  std::uint64_t next() { rng ^= rng << 13; rng ^= rng >> 7; rng ^= rng << 17; return rng; }
};

inline World& world() { static World w; return w; }
inline Thread& self() { return world().threads[world().current]; }

inline std::size_t choose(Kind k, std::size_t lo, std::size_t hi)
{
  World& w = world();
  const int p = w.policy[int(k)];
  std::size_t i = hi;
  if (p == 1) { i = lo; }
  else if (p == 2) { i = lo + std::size_t(w.next() % (hi - lo + 1)); }
  if (i != hi) { ++w.staleReads; }
  return i;
}

inline bool is_acquire(std::memory_order mo) { return mo == std::memory_order_acquire || mo == std::memory_order_acq_rel || mo == std::memory_order_seq_cst || mo == std::memory_order_consume; }
inline bool is_release(std::memory_order mo) { return mo == std::memory_order_release || mo == std::memory_order_acq_rel || mo == std::memory_order_seq_cst; }

template <typename T, Kind K>
class Location
{
  struct Msg { T val; View view; };
  std::vector<Msg> _hist;

  // a location's address can be reused after destruction: forget it in every thread's views
  void forget()
  {
    for (auto& kv : world().threads) { kv.second.cur.erase(this); kv.second.acq.erase(this); kv.second.rel.erase(this); }
  }

public:
  explicit Location(T v) { forget(); _hist.push_back(Msg{v, View{}}); }
  ~Location() { forget(); }
  Location(const Location&) = delete;
  Location& operator=(const Location&) = delete;

  T load(std::memory_order mo, const char* name)
  {
    Thread& th = self();
    const std::size_t lo = th.cur.count(this) ? th.cur[this] : 0;
    const std::size_t hi = _hist.size() - 1;
    const std::size_t i = choose(K, lo, hi);
    th.cur[this] = i;
    if (is_acquire(mo)) { join(th.cur, _hist[i].view); } else { join(th.acq, _hist[i].view); }
    world().trace += std::string(" ld:") + name + "[" + std::to_string(i) + "/" + std::to_string(hi) + "]";
    return _hist[i].val;
  }

  void store(T v, std::memory_order mo, const char* name)
  {
    Thread& th = self();
    const std::size_t i = _hist.size();
    th.cur[this] = i;
    View mv;
    if (is_release(mo)) { mv = th.cur; } else { mv = th.rel; mv[this] = i; }
    _hist.push_back(Msg{v, mv});
    world().trace += std::string(" st:") + name;
  }

  // read-modify-write: reads the newest message, continues its release sequence
  template <typename F>
  T rmw(F f, std::memory_order mo, const char* name)
  {
    Thread& th = self();
    const std::size_t i = _hist.size() - 1;
    th.cur[this] = i;
    if (is_acquire(mo)) { join(th.cur, _hist[i].view); } else { join(th.acq, _hist[i].view); }
    const T old = _hist[i].val;
    View mv = _hist[i].view;
    th.cur[this] = i + 1;
    if (is_release(mo)) { join(mv, th.cur); } else { join(mv, th.rel); }
    mv[this] = i + 1;
    _hist.push_back(Msg{f(old), mv});
    world().trace += std::string(" rmw:") + name;
    return old;
  }

  T newest() const { return _hist.back().val; }
};

} // namespace ra

namespace std {

template <typename T>
class ra_atomic
{
  ra::Location<T, ra::Kind::index> _loc;

public:
  ra_atomic() : _loc(T{}) {}
  ra_atomic(T v) : _loc(v) {} // NOLINT: like std::atomic
  ra_atomic(const ra_atomic&) = delete;
  ra_atomic& operator=(const ra_atomic&) = delete;

  T load(std::memory_order mo = std::memory_order_seq_cst) const { return const_cast<ra_atomic*>(this)->_loc.load(mo, "a"); }
  void store(T v, std::memory_order mo = std::memory_order_seq_cst) { _loc.store(v, mo, "a"); }
  operator T() const { return load(); } // NOLINT
  T fetch_add(T d, std::memory_order mo = std::memory_order_seq_cst) { return _loc.rmw([d](T o) { return T(o + d); }, mo, "a"); }
};

inline void ra_atomic_thread_fence(std::memory_order mo)
{
  ra::Thread& th = ra::self();
  if (ra::is_acquire(mo)) { ra::join(th.cur, th.acq); }
  if (ra::is_release(mo)) { th.rel = th.cur; }
  ra::world().trace += " fence";
}

class ra_mutex
{
  ra::Location<int, ra::Kind::other> _loc{0};

public:
  void lock() { _loc.rmw([](int) { return 1; }, std::memory_order_acquire, "mutex"); }
  void unlock() { _loc.store(0, std::memory_order_release, "mutex"); }
};

template <typename M>
class ra_lock_guard
{
  M& _m;

public:
  explicit ra_lock_guard(M& m) : _m(m) { _m.lock(); }
  ~ra_lock_guard() { _m.unlock(); }
  ra_lock_guard(const ra_lock_guard&) = delete;
  ra_lock_guard& operator=(const ra_lock_guard&) = delete;
};

// shared_ptr with libstdc++'s memory orders on the use count
template <typename T>
class ra_shared_ptr
{
  struct Block
  {
    ra::Location<long, ra::Kind::usecount> use{1};
    T* obj = nullptr;
  };
  Block* _b = nullptr;

  void acquire_ref() { if (_b) { _b->use.rmw([](long o) { return o + 1; }, std::memory_order_relaxed, "use"); } }
  void release_ref()
  {
    if (_b)
    {
      const long old = _b->use.rmw([](long o) { return o - 1; }, std::memory_order_acq_rel, "use");
      if (old == 1) { delete _b->obj; delete _b; }
      _b = nullptr;
    }
  }

public:
  ra_shared_ptr() = default;
  ra_shared_ptr(std::nullptr_t) {} // NOLINT
  explicit ra_shared_ptr(T* p) : _b(new Block) { _b->obj = p; }
  ra_shared_ptr(const ra_shared_ptr& o) : _b(o._b) { acquire_ref(); }
  ra_shared_ptr(ra_shared_ptr&& o) noexcept : _b(o._b) { o._b = nullptr; }
  ra_shared_ptr& operator=(const ra_shared_ptr& o) { if (this != &o) { ra_shared_ptr tmp(o); swap(tmp); } return *this; }
  ra_shared_ptr& operator=(ra_shared_ptr&& o) noexcept { if (this != &o) { ra_shared_ptr tmp(std::move(o)); swap(tmp); } return *this; }
  ~ra_shared_ptr() { release_ref(); }

  void swap(ra_shared_ptr& o) noexcept { std::swap(_b, o._b); }
  void reset() { release_ref(); }
  long use_count() const { return _b ? _b->use.load(std::memory_order_relaxed, "use") : 0; }
  T* get() const { return _b ? _b->obj : nullptr; }
  T& operator*() const { return *_b->obj; }
  T* operator->() const { return _b->obj; }
  explicit operator bool() const { return _b != nullptr; }
};

template <typename T, typename... Args>
ra_shared_ptr<T> ra_make_shared(Args&&... args)
{
  return ra_shared_ptr<T>(new T(std::forward<Args>(args)...));
}

} // namespace std
