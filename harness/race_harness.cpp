// Failing-schedule finder for C03 on the REAL macros and Session with real threads, made deterministic by observing the
// session mutex: while consume is inside an OutputStream::write call (it holds the session mutex), producer threads execute
// log statements; each is started only after the previous one has either finished or is blocked on the mutex (the mutex is
// observed by token renaming, the binlog headers are unchanged).  Threads that hit a statement for the first time must
// block (registration needs the mutex); a thread that gets through has learnt a source id whose registration is not
// complete.  Output: the kinds and ids of the entries consume wrote, in order.
#include <atomic>
#include <chrono>
#include <cstdint>
#include <cstring>
#include <functional>
#include <iostream>
#include <memory>
#include <mutex>
#include <sstream>
#include <string>
#include <thread>
#include <vector>

static std::atomic<int> g_waiters{0};

namespace std {
class inj_mutex
{
  std::mutex _m;
public:
  void lock() { if (! _m.try_lock()) { ++g_waiters; _m.lock(); --g_waiters; } }
  bool try_lock() { return _m.try_lock(); }
  void unlock() { _m.unlock(); }
};
} // namespace std

#define mutex inj_mutex
#include <binlog/binlog.hpp>
#undef mutex

namespace {

void run_site(int site, binlog::SessionWriter& w, int a)
{
  switch (site)
  {
    case 0: BINLOG_INFO_W(w, "site0 {}", a); break;
    case 1: BINLOG_WARN_W(w, "site1 {} {}", a, a + 1); break;
    case 2: BINLOG_ERROR_WC(w, cat, "site2"); break;
    case 3: BINLOG_DEBUG_W(w, "site3 {}", a); break;
    case 4: BINLOG_CRITICAL_WC(w, other, "site4 {}", a); break;
    default: BINLOG_TRACE_W(w, "site5"); break;
  }
}

struct Out
{
  std::string seq;
  std::function<void()> hook;
  int writes = 0;
  int hookAt = 0;
  Out& write(const char* p, std::streamsize n)
  {
    if (writes++ == hookAt && hook) { hook(); }
    std::size_t pos = 0;
    const std::size_t len = std::size_t(n);
    while (pos + 12 <= len)
    {
      std::uint32_t size; std::uint64_t tag;
      memcpy(&size, p + pos, 4); memcpy(&tag, p + pos + 4, 8);
      if (! seq.empty()) { seq += ','; }
      if (tag == std::uint64_t(-1)) { std::uint64_t id; memcpy(&id, p + pos + 12, 8); seq += "S" + std::to_string(id); }
      else if (tag == std::uint64_t(-2)) { seq += "W"; }
      else if (tag == std::uint64_t(-3)) { seq += "C"; }
      else if ((tag >> 63) == 0) { seq += "E" + std::to_string(tag); }
      else { seq += "U"; }
      pos += 4 + size;
    }
    return *this;
  }
};

} // namespace

int main()
{
  std::ios::sync_with_stdio(false);
  std::string line;
  // the call sites keep their static ids for the life of the process: ONE script per process
  if (! std::getline(std::cin, line)) { return 0; }
  std::istringstream in(line);
  std::string cmd; int hookAt = 0, nthreads = 0;
  in >> cmd >> hookAt >> nthreads;
  if (cmd != "race" || nthreads < 1 || nthreads > 6) { std::cout << "bad-op\n"; return 0; }
  std::vector<int> sites(std::size_t(nthreads), 0), pre;
  for (int& s : sites) { in >> s; }
  int p;
  while (in >> p) { pre.push_back(p); }          // statements executed (registered) before the race, sequentially

  binlog::Session session;
  std::vector<std::unique_ptr<binlog::SessionWriter>> writers;
  for (int i = 0; i < nthreads + 1; ++i) { writers.emplace_back(new binlog::SessionWriter(session, 4096, std::uint64_t(i), "w")); }
  for (int s : pre) { run_site(s, *writers.back(), 7); }
  std::string zero;
  {
    // one consume so that hookAt can address the writes of a consume with / without metadata to write
    if (! pre.empty() && hookAt >= 10) { Out o0; session.consume(o0); hookAt -= 10; zero = o0.seq; }
  }

  std::vector<std::thread> threads;
  std::vector<std::unique_ptr<std::atomic<bool>>> done;
  Out out;
  out.hookAt = hookAt;
  bool hooked = false;
  out.hook = [&]()
  {
    hooked = true;
    for (int i = 0; i < nthreads; ++i)
    {
      done.emplace_back(new std::atomic<bool>(false));
      std::atomic<bool>* d = done.back().get();
      const int before = g_waiters.load();
      threads.emplace_back([&, i, d]() { run_site(sites[std::size_t(i)], *writers[std::size_t(i)], i); d->store(true); });
      // wait until the thread has finished its statement or is blocked on the session mutex
      const auto t0 = std::chrono::steady_clock::now();
      while (! d->load() && g_waiters.load() <= before
             && std::chrono::steady_clock::now() - t0 < std::chrono::seconds(3)) { std::this_thread::yield(); }
    }
  };
  const binlog::Session::ConsumeResult r1 = session.consume(out);
  for (std::thread& t : threads) { t.join(); }
  std::string first = out.seq;
  out.seq.clear();
  out.hook = nullptr;
  session.consume(out);
  int finishedDuring = 0;
  (void)r1;
  std::cout << "race hooked=" << (hooked ? 1 : 0) << " zero=" << zero << " first=" << first << " second=" << out.seq << "\n";
  (void)finishedDuring;
  return 0;
}
