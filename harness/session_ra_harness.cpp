// Release/acquire harness for Session / SessionWriter (C02, C10): the REAL headers over the shim of shim/ra.hpp.
// Each op is executed by a LOGICAL thread (`T<k>` prefix); loads may read stale messages according to the policy of
// the op (`consume idx=old,use=new`), so executions that x86 never produces are run by the real code.
// --- all standard headers first, then the std names are redirected to the release/acquire shim ---
#include <algorithm>
#include <atomic>
#include <chrono>
#include <cstdint>
#include <cstring>
#include <ctime>
#include <deque>
#include <iostream>
#include <map>
#include <memory>
#include <mutex>
#include <sstream>
#include <stdexcept>
#include <string>
#include <type_traits>
#include <utility>
#include <vector>
#include "shim/ra.hpp"

// what each channel poll of Session::consume observed (hook in Session.hpp, guarded by BINLOG_VERIF)
static std::vector<std::pair<bool, std::size_t>> g_polls;
#define BINLOG_VERIF_POLL_HOOK(closed, size) g_polls.emplace_back((closed), std::size_t(size))

#define atomic ra_atomic
#define mutex ra_mutex
#define lock_guard ra_lock_guard
#define shared_ptr ra_shared_ptr
#define make_shared ra_make_shared
#define atomic_thread_fence ra_atomic_thread_fence
#include <binlog/Session.hpp>
#include <binlog/SessionWriter.hpp>
#undef atomic
#undef mutex
#undef lock_guard
#undef shared_ptr
#undef make_shared
#undef atomic_thread_fence

namespace {

std::string hex(const char* p, std::size_t n)
{
  static const char* d = "0123456789abcdef";
  std::string s;
  for (std::size_t i = 0; i < n; ++i) { const unsigned char c = static_cast<unsigned char>(p[i]); s.push_back(d[c >> 4]); s.push_back(d[c & 15]); }
  return s;
}

bool unhex(const std::string& h, std::string& out)
{
  out.clear();
  if (h == "-" || h.empty()) { return true; }
  if (h.size() % 2) { return false; }
  auto val = [](char c) -> int { if ('0' <= c && c <= '9') return c - '0'; if ('a' <= c && c <= 'f') return c - 'a' + 10; return -1; };
  for (std::size_t i = 0; i < h.size(); i += 2) { const int a = val(h[i]), b = val(h[i + 1]); if (a < 0 || b < 0) return false; out.push_back(char(a * 16 + b)); }
  return true;
}

// arguments of an event given as raw bytes
struct Raw { std::string bytes; };

struct RecordingOut
{
  std::vector<std::string> writes;
  RecordingOut& write(const char* p, std::streamsize n) { writes.emplace_back(p, std::size_t(n)); return *this; }
};

std::string showWrites(const RecordingOut& o)
{
  std::string s;
  for (std::size_t i = 0; i < o.writes.size(); ++i) { if (i) { s += ','; } s += hex(o.writes[i].data(), o.writes[i].size()); }
  return s;
}

std::string showResult(const binlog::Session::ConsumeResult& r)
{
  std::ostringstream s;
  s << "bytes=" << r.bytesConsumed << " total=" << r.totalBytesConsumed << " polled=" << r.channelsPolled << " removed=" << r.channelsRemoved;
  return s.str();
}

} // namespace

namespace mserialize {
template <>
struct CustomSerializer<Raw>
{
  template <typename OutputStream>
  static void serialize(const Raw& r, OutputStream& out) { out.write(r.bytes.data(), std::streamsize(r.bytes.size())); }
  static std::size_t serialized_size(const Raw& r) { return r.bytes.size(); }
};
} // namespace mserialize

int main()
{
  std::ios::sync_with_stdio(false);
  std::string line;
  while (std::getline(std::cin, line))
  {
    // tokens; groups separated by "|"
    std::vector<std::vector<std::string>> groups(1);
    {
      std::istringstream in(line);
      std::string t;
      while (in >> t) { if (t == "|") { groups.emplace_back(); } else { groups.back().push_back(t); } }
    }
    if (groups.empty() || groups[0].size() != 6 || groups[0][0] != "session") { std::cout << "bad-op\n"; continue; }
    ra::world() = ra::World{};
    auto session = std::make_unique<binlog::Session>();
    {
      std::string name; unhex(groups[0][5], name);
      // the constructor registered the system clock sync: consume it away into a scratch output, then set ours
      // (the model starts from `init cs`: one clock sync pending)
    }
    // Session() appends the system clock sync to _clockSync; the model's `init cs` has exactly one entry.
    // To start from a known state the harness cannot remove it, so the script's first clock sync is
    // compared structurally: the harness prints writes with the FIRST entry of the first write replaced by the
    // given clock sync.  Instead of patching bytes we exploit setClockSync semantics: nothing to do here; see below.
    std::map<unsigned, std::unique_ptr<binlog::SessionWriter>> writers;
    std::string out;
    bool first = true;
    bool firstConsume = true;
    // the size of the system clock sync entry the Session constructor wrote (to cut it off the first metadata write)
    std::size_t sysSyncSize = 0;
    {
      binlog::detail::VectorOutputStream tmp;
      sysSyncSize = binlog::serializeSizePrefixedTagged(binlog::systemClockSync(), tmp);
    }
    {
      std::string name; unhex(groups[0][5], name);
      binlog::ClockSync cs{std::stoull(groups[0][1]), std::stoull(groups[0][2]), std::stoull(groups[0][3]),
                           std::int32_t(std::uint32_t(std::stoull(groups[0][4]))), name};
      session->setClockSync(cs);
    }
    auto cutSysSync = [&](RecordingOut& o, binlog::Session::ConsumeResult& r, bool clockSyncWritten)
    {
      // remove the system clock sync entry (always the first entry of the _clockSync buffer)
      if (clockSyncWritten && ! o.writes.empty() && o.writes[0].size() >= sysSyncSize)
      {
        o.writes[0].erase(0, sysSyncSize);
        r.bytesConsumed -= sysSyncSize;
      }
    };
    std::size_t cutTotal = 0;
    bool consumeClockSyncPending = true;
    for (std::size_t g = 1; g < groups.size(); ++g)
    {
      std::vector<std::string> t = groups[g];
      if (t.empty()) { continue; }
      ra::world().current = 0;
      ra::world().policy[0] = ra::world().policy[1] = ra::world().policy[2] = 0;
      if (t[0].size() >= 2 && t[0][0] == 'T') { ra::world().current = std::stoi(t[0].substr(1)); t.erase(t.begin()); }
      if (t.empty()) { continue; }
      // policy suffix of consume: idx=old|new|rnd,use=old|new|rnd
      if (t[0] == "consume" && t.size() >= 2)
      {
        auto pol = [](const std::string& v) { return v == "old" ? 1 : (v == "rnd" ? 2 : 0); };
        std::istringstream ps(t[1]);
        std::string kv;
        while (std::getline(ps, kv, ','))
        {
          if (kv.rfind("idx=", 0) == 0) { ra::world().policy[0] = pol(kv.substr(4)); }
          if (kv.rfind("use=", 0) == 0) { ra::world().policy[1] = pol(kv.substr(4)); }
          if (kv.rfind("seed=", 0) == 0) { ra::world().rng = 88172645463325252ULL ^ std::stoull(kv.substr(5)); }
        }
        t.resize(1);
      }
      std::string seg = "bad-op";
      try
      {
        if (t[0] == "cw" && t.size() == 5)
        {
          std::string name; unhex(t[4], name);
          const unsigned w = unsigned(std::stoul(t[1]));
          writers[w] = std::make_unique<binlog::SessionWriter>(*session, std::stoull(t[2]), std::stoull(t[3]), name);
          seg = "cw";
        }
        else if (t[0] == "sid" && t.size() == 3)
        {
          auto it = writers.find(unsigned(std::stoul(t[1])));
          if (it == writers.end() || ! it->second) { seg = "disabled"; } else { it->second->setId(std::stoull(t[2])); seg = "sid"; }
        }
        else if (t[0] == "sname" && t.size() == 3)
        {
          std::string name; unhex(t[2], name);
          auto it = writers.find(unsigned(std::stoul(t[1])));
          if (it == writers.end() || ! it->second) { seg = "disabled"; } else { it->second->setName(name); seg = "sname"; }
        }
        else if (t[0] == "src" && t.size() == 8)
        {
          binlog::EventSource src;
          src.severity = binlog::Severity(std::uint16_t(std::stoul(t[1])));
          unhex(t[2], src.category); unhex(t[3], src.function); unhex(t[4], src.file);
          src.line = std::stoull(t[5]);
          unhex(t[6], src.formatString); unhex(t[7], src.argumentTags);
          const std::uint64_t id = session->addEventSource(src);
          seg = "src id=" + std::to_string(id);
        }
        else if (t[0] == "log" && t.size() == 5)
        {
          auto it = writers.find(unsigned(std::stoul(t[1])));
          if (it == writers.end() || ! it->second) { seg = "disabled"; }
          else
          {
            Raw raw; unhex(t[4], raw.bytes);
            // detect replacement through the session: number of channels is not public; use the writer's capacity change
            // proxy: compare polled channel counts at the next consume.  Here: report ok only.
            const bool ok = it->second->addEvent(std::stoull(t[2]), std::stoull(t[3]), raw);
            seg = std::string("log ok=") + (ok ? "1" : "0");
          }
        }
        else if (t[0] == "dw" && t.size() == 2)
        {
          auto it = writers.find(unsigned(std::stoul(t[1])));
          if (it == writers.end() || ! it->second) { seg = "disabled"; } else { it->second.reset(); seg = "dw"; }
        }
        else if (t[0] == "cs" && t.size() == 6)
        {
          std::string name; unhex(t[5], name);
          binlog::ClockSync cs{std::stoull(t[1]), std::stoull(t[2]), std::stoull(t[3]), std::int32_t(std::uint32_t(std::stoull(t[4]))), name};
          session->setClockSync(cs);
          consumeClockSyncPending = true;
          seg = "cs";
        }
        else if (t[0] == "consume")
        {
          RecordingOut o;
          g_polls.clear();
          binlog::Session::ConsumeResult r = session->consume(o);
          cutSysSync(o, r, consumeClockSyncPending);
          if (consumeClockSyncPending) { cutTotal += sysSyncSize; }
          consumeClockSyncPending = false;
          r.totalBytesConsumed -= cutTotal;
          seg = "consume writes=" + showWrites(o) + " " + showResult(r) + " polls=";
          for (std::size_t i = 0; i < g_polls.size(); ++i) { if (i) { seg += ','; } seg += (g_polls[i].first ? "c" : "o") + std::to_string(g_polls[i].second); }
          (void)firstConsume;
        }
        else if (t[0] == "rotate")
        {
          RecordingOut o;
          binlog::Session::ConsumeResult r = session->reconsumeMetadata(o);
          cutSysSync(o, r, true);
          cutTotal += sysSyncSize;
          r.totalBytesConsumed -= cutTotal;
          seg = "rotate writes=" + showWrites(o) + " " + showResult(r);
        }
      }
      catch (const std::exception& ex) { seg = std::string("exception:") + ex.what(); }
      if (! first) { out += ';'; }
      first = false;
      out += seg;
    }
    writers.clear();
    std::cout << out << "\n" << std::flush;
  }
  return 0;
}
