// Reporting side of the generated mserialize correspondence programs (C04, C05, C06, C07).
// For one value of one (generated) C++ type: tag, serialized_size, bytes (VectorOutputStream and a
// real QueueWriter with assertions on), visitor callbacks, ToStringVisitor text, deserialization
// round trip into the same type and into a tag-compatible type, all truncation points.
#pragma once
#include <binlog/binlog.hpp>
#include <binlog/ToStringVisitor.hpp>
#include <binlog/detail/OstreamBuffer.hpp>
#include <binlog/detail/Queue.hpp>
#include <binlog/detail/QueueWriter.hpp>
#include <binlog/detail/QueueReader.hpp>
#include <binlog/Range.hpp>
#include <mserialize/deserialize.hpp>
#include <mserialize/serialize.hpp>
#include <mserialize/tag.hpp>
#include <mserialize/visit.hpp>

#include <cstdint>
#include <cstring>
#include <iostream>
#include <iterator>
#include <memory>
#include <sstream>
#include <string>
#include <vector>

// a user type with its own codec: an enum over a 32-bit integer that travels as ONE byte (tag `B`).  Its wire format is not its
// object representation, so any path that copies objects instead of going through the codec shows
namespace vr { enum class WireByte : std::uint32_t {}; }
namespace mserialize {
template <>
struct CustomSerializer<vr::WireByte>
{
  template <typename OutputStream>
  static void serialize(const vr::WireByte v, OutputStream& ostream)
  {
    const std::uint8_t b = std::uint8_t(static_cast<std::uint32_t>(v));
    mserialize::serialize(b, ostream);
  }
  static std::size_t serialized_size(const vr::WireByte) { return 1; }
};
template <>
struct CustomDeserializer<vr::WireByte>
{
  template <typename InputStream>
  static void deserialize(vr::WireByte& v, InputStream& istream)
  {
    std::uint8_t b = 0;
    mserialize::deserialize(b, istream);
    v = static_cast<vr::WireByte>(std::uint32_t(b));
  }
};
template <>
struct CustomTag<vr::WireByte>
{
  static constexpr auto tag_string() { return make_cx_string("B"); }
};
} // namespace mserialize

namespace vr {

inline std::string hex(const char* p, std::size_t n)
{
  static const char* d = "0123456789abcdef";
  std::string s;
  for (std::size_t i = 0; i < n; ++i)
  {
    const unsigned char c = static_cast<unsigned char>(p[i]);
    s.push_back(d[c >> 4]);
    s.push_back(d[c & 15]);
  }
  return s;
}
inline std::string hex(mserialize::string_view s) { return hex(s.data(), s.size()); }
inline std::string hex(const std::string& s) { return hex(s.data(), s.size()); }

template <typename T> T from_bits(std::uint64_t bits)
{
  T t;
  static_assert(sizeof(T) <= sizeof(bits), "");
  std::memcpy(&t, &bits, sizeof(T));
  return t;
}
inline long double ld_from_bits(std::uint64_t lo, std::uint16_t hi)
{
  long double t = 0;
  unsigned char buf[sizeof(long double)] = {0};
  std::memcpy(buf, &lo, 8);
  std::memcpy(buf + 8, &hi, 2);
  std::memcpy(&t, buf, sizeof(long double));
  return t;
}

struct VecOut
{
  std::string s;
  VecOut& write(const char* p, std::streamsize n) { s.append(p, std::size_t(n)); return *this; }
};

struct Recorder
{
  std::string ev;
  void add(const std::string& e) { if (! ev.empty()) { ev += ','; } ev += e; }

  template <typename T> void arith(char tag, T v)
  {
    char buf[sizeof(T)];
    std::memcpy(buf, &v, sizeof(T));
    // long double: only the 10 value bytes are meaningful
    const std::size_t n = std::is_same<T, long double>::value ? 10 : sizeof(T);
    add(std::string("a") + tag + ":" + hex(buf, n));
  }
  void visit(bool v) { arith('y', v); }
  void visit(char v) { arith('c', v); }
  void visit(std::int8_t v) { arith('b', v); }
  void visit(std::int16_t v) { arith('s', v); }
  void visit(std::int32_t v) { arith('i', v); }
  void visit(std::int64_t v) { arith('l', v); }
  void visit(std::uint8_t v) { arith('B', v); }
  void visit(std::uint16_t v) { arith('S', v); }
  void visit(std::uint32_t v) { arith('I', v); }
  void visit(std::uint64_t v) { arith('L', v); }
  void visit(float v) { arith('f', v); }
  void visit(double v) { arith('d', v); }
  void visit(long double v) { arith('D', v); }

  bool visit(mserialize::Visitor::SequenceBegin sb, binlog::Range&) { add("sb" + std::to_string(sb.size) + ":" + hex(sb.tag)); return false; }
  void visit(mserialize::Visitor::SequenceEnd) { add("se"); }
  bool visit(mserialize::Visitor::TupleBegin tb, binlog::Range&) { add("tb:" + hex(tb.tag)); return false; }
  void visit(mserialize::Visitor::TupleEnd) { add("te"); }
  bool visit(mserialize::Visitor::VariantBegin vb, binlog::Range&) { add("vb" + std::to_string(unsigned(vb.discriminator)) + ":" + hex(vb.tag)); return false; }
  void visit(mserialize::Visitor::VariantEnd) { add("ve"); }
  void visit(mserialize::Visitor::Null) { add("nl"); }
  void visit(mserialize::Visitor::Enum e) { add("en:" + hex(e.name) + ":" + hex(e.enumerator) + ":" + e.tag + ":" + hex(e.value)); }
  bool visit(mserialize::Visitor::StructBegin sb, binlog::Range&) { add("stb:" + hex(sb.name) + ":" + hex(sb.tag)); return false; }
  void visit(mserialize::Visitor::StructEnd) { add("ste"); }
  void visit(mserialize::Visitor::FieldBegin fb) { add("fb:" + hex(fb.name) + ":" + hex(fb.tag)); }
  void visit(mserialize::Visitor::FieldEnd) { add("fe"); }
  void visit(mserialize::Visitor::RepeatBegin rb) { add("rb" + std::to_string(rb.size) + ":" + hex(rb.tag)); }
  void visit(mserialize::Visitor::RepeatEnd re) { add("re" + std::to_string(re.size) + ":" + hex(re.tag)); }
};

template <typename T>
std::string serialize_to_string(const T& v)
{
  VecOut out;
  mserialize::serialize(v, out);
  return out.s;
}

// serialize into a real queue the way SessionWriter::addEvent does: reserve exactly `size` bytes,
// write, and let QueueWriter's assertion (enabled) catch any write beyond the reservation
template <typename T>
std::string serialize_via_queue(const T& v, std::size_t size)
{
  std::vector<char> buffer(size);   // the window is exactly the reserved size
  binlog::detail::Queue q(buffer.data(), buffer.size());
  binlog::detail::QueueWriter w(q);
  if (! w.beginWrite(size)) { return "<no space>"; }
  mserialize::serialize(v, w);
  w.endWrite();
  binlog::detail::QueueReader r(q);
  const auto rr = r.beginRead();
  std::string s(rr.buffer1, rr.size1);
  s.append(rr.buffer2, rr.size2);
  return s;
}

template <typename D>
struct RoundTrip
{
  static void run(const char* key, const std::string& bytes)
  {
    const auto dtag = mserialize::tag<D>();
    std::cout << ' ' << key << "tag=" << hex(std::string(dtag.data(), dtag.size()));
    {
      D d{};
      binlog::Range in(bytes.data(), bytes.size());
      try
      {
        mserialize::deserialize(d, in);
        std::cout << ' ' << key << "=" << hex(serialize_to_string(d)) << ' ' << key << "rest=" << in.size();
      }
      catch (const std::exception& ex) { std::cout << ' ' << key << "=EXC:" << hex(std::string(ex.what())); }
    }
    // every truncation point must throw (never succeed, never read past the input: ASan)
    // (every point for encodings up to 2 KiB; for longer ones the first and last 256 points and every k-th in between, so that
    // the quadratic loop stays bounded: about 1500 points)
    std::size_t ok = 0;
    const std::size_t stride = bytes.size() <= 2048 ? 1 : bytes.size() / 1024;
    for (std::size_t n = 0; n < bytes.size(); n += (n < 256 || n + 256 >= bytes.size()) ? 1 : stride)
    {
      // copy so that ASan sees reads past the truncated buffer
      std::vector<char> cut(bytes.begin(), bytes.begin() + std::ptrdiff_t(n));
      D d{};
      binlog::Range in(cut.data(), cut.size());
      try { mserialize::deserialize(d, in); ++ok; } catch (const std::exception&) {}
    }
    std::cout << ' ' << key << "truncok=" << ok;
  }
};
template <>
struct RoundTrip<void>
{
  static void run(const char* key, const std::string&) { std::cout << ' ' << key << "=NA"; }
};

template <typename D>
void report_roundtrip(const char* key, const std::string& bytes) { RoundTrip<D>::run(key, bytes); }

// Deserialize into a destination that may have fixed-size sequence nodes (std::array), with bytes of a following value
// behind the encoding: either the value round-trips and exactly the trailing bytes are left, or an exception is thrown.
template <typename D>
struct Into
{
  static void run(const std::string& bytes)
  {
    const std::string trailing("\x01\x02\x03\x04\x05\x06\x07\x08", 8);
    const std::string input = bytes + trailing;
    const auto dtag = mserialize::tag<D>();
    std::cout << " fxtag=" << hex(std::string(dtag.data(), dtag.size()));
    D d{};
    binlog::Range in(input.data(), input.size());
    try
    {
      mserialize::deserialize(d, in);
      std::cout << " fx=" << hex(serialize_to_string(d)) << '/' << in.size();
    }
    catch (const std::exception& ex)
    {
      const std::string what = ex.what();
      if (what.find("target size") != std::string::npos) { std::cout << " fx=ERR:size-mismatch"; }
      else if (what.find("Range overflow") != std::string::npos) { std::cout << " fx=ERR:overflow"; }
      else { std::cout << " fx=ERR:other:" << hex(what); }
    }
  }
};
template <>
struct Into<void>
{
  static void run(const std::string&) { std::cout << " fx=NA"; }
};


// Deserialize a second value into the destination that already holds the first one (AG bit 0), keeping a copy of the first
// result (bit 1: the type can be copied): the destination must then hold the second value and the copy still the first.
template <typename D, bool Copy>
struct Keep
{
  D copy;
  explicit Keep(const D& d) :copy(d) {}
  void print() const { std::cout << " keep=" << hex(serialize_to_string(copy)); }
};
template <typename D>
struct Keep<D, false>
{
  explicit Keep(const D&) {}
  void print() const {}
};
template <typename D, int AG>
struct Again
{
  static void run(const std::string& first, const std::string& second)
  {
    try
    {
      D d{};
      { binlog::Range in(first.data(), first.size()); mserialize::deserialize(d, in); }
      const Keep<D, (AG & 2) != 0> keep(d);
      { binlog::Range in(second.data(), second.size()); mserialize::deserialize(d, in); }
      std::cout << " rt2=" << hex(serialize_to_string(d));
      keep.print();
    }
    catch (const std::exception& ex) { std::cout << " rt2=EXC:" << hex(std::string(ex.what())); }
  }
};
template <typename D>
struct Again<D, 0>
{
  static void run(const std::string&, const std::string&) {}
};

// A single-pass range (begin()/end() are std::istream_iterator<int> over a stream the range owns): mserialize rejects it at
// compile time (sequences need forward iterators, the serializer walks them more than once).  If a tree ACCEPTS it, size and
// bytes are reported (on stderr, once per program) and the check holds them against the documented encoding.
struct InputRange
{
  std::shared_ptr<std::istringstream> in;
  explicit InputRange(const std::string& text) :in(std::make_shared<std::istringstream>(text)) {}
  std::istream_iterator<int> begin() const { return std::istream_iterator<int>(*in); }
  std::istream_iterator<int> end() const { return std::istream_iterator<int>(); }
};
template <typename R, typename = void>
struct InputProbe
{
  static void run() { std::cerr << "PROBE input-range=rejected\n"; }
};
template <typename R>
struct InputProbe<R, std::enable_if_t<mserialize::detail::is_serializable<R>::value>>
{
  static void run()
  {
    const R a("1 2 3");
    const std::size_t size = mserialize::serialized_size(a);
    const R b("1 2 3");
    const std::string bytes = serialize_to_string(b);
    std::cerr << "PROBE input-range=accepted size=" << size << " bytes=" << hex(bytes) << "\n";
  }
};
inline void probe_input_range() { InputProbe<InputRange>::run(); }

// Report the serialization side of one value.  `X` is a tag-compatible deserializable type
// (or `void` if there is none); `D` says whether T itself is deserializable.
template <typename T, typename RT, typename X, typename F = void, int AG = 0>
void report(int id, const T& v, const T* w = nullptr)
{
  const auto tag = mserialize::tag<T>();
  const std::string tagS(tag.data(), tag.size());
  const std::size_t size = mserialize::serialized_size(v);
  const std::string bytes = serialize_to_string(v);
  const std::string qbytes = serialize_via_queue(v, size);

  std::cout << "case=" << id << " tag=" << hex(tagS) << " size=" << size << " bytes=" << hex(bytes);
  std::cout << " qok=" << (qbytes == bytes ? 1 : 0);

  // visitation
  {
    Recorder rec;
    binlog::Range in(bytes.data(), bytes.size());
    std::string err = "-";
    try { mserialize::visit(tagS, rec, in); } catch (const std::exception& ex) { err = ex.what(); }
    std::cout << " events=" << rec.ev << " visitrest=" << in.size() << " visiterr=" << hex(err == "-" ? std::string() : err);
  }
  // rendering
  {
    std::ostringstream os;
    std::string err = "-";
    {
      binlog::detail::OstreamBuffer ob(os);
      binlog::ToStringVisitor ts(ob);
      binlog::Range in(bytes.data(), bytes.size());
      try { mserialize::visit(tagS, ts, in); } catch (const std::exception& ex) { err = ex.what(); }
    }
    std::cout << " text=" << hex(os.str());
  }
  // round trip into RT (T itself when deserializable) and into the tag-compatible X
  report_roundtrip<RT>("rt", bytes);
  report_roundtrip<X>("xt", bytes);
  Into<F>::run(bytes);
  Again<RT, AG>::run(bytes, w != nullptr ? serialize_to_string(*w) : std::string());
  std::cout << "\n";
}

} // namespace vr
