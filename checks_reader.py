"""Checks for the reader family: C12, C14, C15, C16, C18.

Each check = (1) proof step: build BinlogVerif.Props.<id>, audit axioms;
(2) correspondence: real code (harness/reader_harness.cpp over /repo's working tree) vs Lean driver;
(3) implementation-side property monitor on the same generated cases (used as the failing-input
    search when (1) or (2) breaks, and run on every check anyway)."""
import random
import hashlib
import sys
import os

sys.path.insert(0, os.path.join(os.path.dirname(os.path.abspath(__file__)), 'tools'))
import binlog_gen as G
from checklib import *


# ------------------------------------------------------------------------------------------
# parsing of the canonical output lines
# ------------------------------------------------------------------------------------------

def parse_kv(line):
    d = {}
    for tok in line.split(' '):
        if '=' in tok:
            k, v = tok.split('=', 1)
            d[k] = v
    return d


def parse_items(s):
    return [x for x in s.split(';') if x] if s else []


def item_source_fields(item):
    # E(id,sev,cat,fn,file,line,fmt,tags|clock|args|wp...|cs...)
    inner = item[2:-1]
    parts = inner.split('|')
    f = parts[0].split(',')
    return {'id': int(f[0]), 'severity': int(f[1]), 'category': bytes.fromhex(f[2]), 'function': bytes.fromhex(f[3]),
            'file': bytes.fromhex(f[4]), 'line': int(f[5]), 'fmt': f[6], 'tags': f[7],
            'clock': int(parts[1]), 'args': parts[2], 'wp': parts[3], 'cs': parts[4]}


def cases_count(ctx, quick, thorough):
    return thorough if ctx.tier == 'thorough' else quick


def report_corr(ctx, stream, lines, impl, model, mism, prop_fail_keys):
    """correspondence mismatches that are not explained by a property failure on the same case"""
    # a case on which the real code died (sanitizer report, failed assertion, crash) while the model runs it normally is a
    # concrete failing input: whatever the property promises for that input is not delivered
    for at, err in getattr(ctx, 'died', {}).get(stream, [])[:3]:
        if at in prop_fail_keys:
            continue
        prop_fail_keys.add(at)
        ctx.violation('crash-%s-%s' % (stream, hashlib.sha256(lines[at].encode()).hexdigest()[:10]),
                      '%s: the real code aborted (sanitizer report / failed assertion / crash) on a case the model runs normally (stream %s)' % (ctx.pid, stream),
                      {'kind': 'input', 'stream': stream, 'input_line': lines[at][:20000], 'stderr_tail': err,
                       'model': model[at] if at < len(model) else None})
    for i in mism[:3]:
        a = impl[i] if i < len(impl) else '<none>'
        b = model[i] if i < len(model) else '<none>'
        if i in prop_fail_keys:
            continue
        ctx.violation('corr-%s-%d' % (stream, i),
                      'correspondence %s broke: model and implementation disagree on case %d' % (stream, i),
                      {'kind': 'correspondence', 'stream': stream, 'input_line': lines[i], 'impl': a, 'model': b,
                       'broken': 'correspondence stream %s (model of Props.%s no longer matches the code)' % (stream, ctx.pid)},
                      found_input=False)


def finish_proof(ctx, ok, any_prop_violation):
    """if the proof step failed and no concrete failing input was found, report it as such"""
    if not ok and not any_prop_violation:
        ctx.violation('proof-' + ctx.pid, 'proof obligation no longer checks: ' + ctx.proof_failure,
                      {'kind': 'theorem', 'broken': ctx.proof_failure, 'log': ctx.proof_log}, found_input=False)


# ------------------------------------------------------------------------------------------
# C14
# ------------------------------------------------------------------------------------------

C14_THEOREMS = ['BinlogVerif.C14.c14_segmap_is_map', 'BinlogVerif.C14.c14_segmap_inv',
                'BinlogVerif.C14.c14_state_is_latest', 'BinlogVerif.C14.c14_latest_wins',
                'BinlogVerif.C14.c14_invalid_local', 'BinlogVerif.C14.c14_invalid_short_tag',
                'BinlogVerif.C14.c14_invalid_unknown_id', 'BinlogVerif.C14.c14_invalid_short_clock',
                'BinlogVerif.C14.c14_invalid_metadata']


def gen_segmap_ops(rng):
    n = rng.choice([1, 3, 8, 20, 60])
    pool = []
    ops = []
    for _ in range(n):
        if rng.random() < 0.6 or not pool:
            k = G.rand_id(rng, pool)
            if rng.random() < 0.2:
                k = rng.choice([(1 << 64) - 1, (1 << 64) - 2, 1 << 63])
            pool.append(k)
            ops.append('e%d:%d' % (k, rng.randrange(1000)))
        else:
            k = rng.choice(pool) if rng.random() < 0.7 else G.rand_id(rng, pool)
            ops.append('f%d' % k)
    for k in pool[:10]:
        ops.append('f%d' % k)
    return 'segmap ' + ' '.join(ops)


def check_c14(ctx):
    ok = proof_step(ctx, 'BinlogVerif.Props.C14', C14_THEOREMS)
    exe = build_harness('reader_harness')
    rng = random.Random(ctx.seed * 1000003 + 14)
    n = cases_count(ctx, 1500, 30000)
    lines, meta = [], []
    for i in range(n):
        k = i % 5
        if k == 0:
            lines.append(gen_segmap_ops(rng)); meta.append(('segmap',))
        elif k == 1:
            kinds = []
            log = G.rand_log(rng, invalid_rate=0.2, unknown_rate=0.05, kinds=kinds)
            lines.append('readall ' + G.hexs(G.frames(log))); meta.append(('mixed',))
            # ... and the same log without the entries generated as invalid: the other entries must read the same
            lines.append('readall ' + G.hexs(G.frames([p for p, kd in zip(log, kinds) if kd != 'invalid']))); meta.append(('mixedbase',))
        else:
            # pair: valid log, and the same log with one invalid entry inserted
            log = G.rand_log(rng, n_entries=rng.choice([2, 4, 8, 16]))
            pos = rng.randrange(len(log) + 1)
            pool = [int.from_bytes(p[8:16], 'little') for p in log if p[:8] == G.u64(G.TAG_SOURCE)]
            bad = G.rand_invalid(rng, pool)
            lines.append('readall ' + G.hexs(G.frames(log))); meta.append(('base', log))
            lines.append('readall ' + G.hexs(G.frames(log[:pos] + [bad] + log[pos:]))); meta.append(('with', log, pos, bad))
    impl, model, mism = diff_streams(ctx, 'readall+segmap', exe, lines)
    prop_fail = set()
    nontrivial = set()
    # property monitor on the implementation
    i = 0
    while i < len(lines):
        m = meta[i]
        if m[0] == 'segmap':
            if i < len(impl) and 'STDMAP-MISMATCH' in impl[i]:
                prop_fail.add(i)
                ctx.violation('segmap-%s' % hashlib.sha256(lines[i].encode()).hexdigest()[:10],
                              'C14: SegmentedMap disagrees with std::map on an emplace/find sequence',
                              {'kind': 'input', 'input_line': lines[i], 'impl': impl[i]})
            nontrivial.add(lines[i])
        elif m[0] == 'base' and i + 1 < len(impl):
            base = parse_items(parse_kv(impl[i]).get('items', ''))
            withb = parse_items(parse_kv(impl[i + 1]).get('items', ''))
            log, pos, bad = meta[i + 1][1], meta[i + 1][2], meta[i + 1][3]
            # latest definition wins: independent python oracle over the generated payloads
            defs, exp = {}, []
            wp, cs = None, None
            for p in log:
                tag = int.from_bytes(p[:8], 'little')
                if tag == G.TAG_SOURCE:
                    defs[int.from_bytes(p[8:16], 'little')] = p
                elif tag < (1 << 63):
                    exp.append(defs.get(tag))
            evs = [x for x in base if x.startswith('E(')]
            okk = len(evs) == len(exp)
            if okk:
                for e, d in zip(evs, exp):
                    f = item_source_fields(e)
                    sev = int.from_bytes(d[16:18], 'little')
                    if f['id'] != int.from_bytes(d[8:16], 'little') or f['severity'] != sev:
                        okk = False
                    # the complete source payload must be the latest one: re-encode and compare
                    re_enc = G.source_payload(f['id'], f['severity'], f['category'], f['function'], f['file'], f['line'],
                                              bytes.fromhex(f['fmt']), bytes.fromhex(f['tags']))
                    if re_enc != d:
                        okk = False
            if not okk:
                prop_fail.add(i)
                ctx.violation('latest-%s' % hashlib.sha256(lines[i].encode()).hexdigest()[:10],
                              'C14: an event was not interpreted with the most recent definition of its source id',
                              {'kind': 'input', 'input_line': lines[i], 'impl': impl[i]})
            # invalid entry is local: removing exactly one X(...) gives the base items
            xs = [j for j, it in enumerate(withb) if it.startswith('X(')]
            if len(withb) == len(base) + 1 and any(withb[:j] + withb[j + 1:] == base for j in xs):
                nontrivial.add(lines[i + 1])
            elif withb == base:
                pass  # the generated entry happened to be valid/ignored: trivial case
            else:
                prop_fail.add(i + 1)
                ctx.violation('invalid-local-%s' % hashlib.sha256(lines[i + 1].encode()).hexdigest()[:10],
                              'C14: an invalid entry changed the interpretation of other entries',
                              {'kind': 'input', 'input_line': lines[i + 1], 'base_line': lines[i],
                               'impl_with': impl[i + 1], 'impl_base': impl[i]})
            i += 1
        elif m[0] == 'mixed' and i + 1 < len(impl) and not impl[i].startswith('<harness') and not impl[i + 1].startswith('<harness'):
            witems = parse_items(parse_kv(impl[i]).get('items', ''))
            bitems = parse_items(parse_kv(impl[i + 1]).get('items', ''))
            # several invalid entries, anywhere (also the same one twice): what the valid entries yield does not depend on them
            if not any(it.startswith('X(') for it in bitems):
                if [it for it in witems if not it.startswith('X(')] != bitems:
                    prop_fail.add(i)
                    ctx.violation('invalid-local-%s' % hashlib.sha256(lines[i].encode()).hexdigest()[:10],
                                  'C14: invalid entries changed the interpretation of other entries (the log without them reads differently)',
                                  {'kind': 'input', 'input_line': lines[i], 'base_line': lines[i + 1], 'impl_with': impl[i], 'impl_base': impl[i + 1]})
                elif len(witems) > len(bitems):
                    nontrivial.add(lines[i])
            i += 1
        else:
            nontrivial.add(lines[i])
        i += 1
    report_corr(ctx, 'readall+segmap', lines, impl, model, mism, prop_fail)
    finish_proof(ctx, ok, bool(prop_fail))
    ctx.coverage.update({'evaluations': len(lines), 'distinct_nontrivial': len(nontrivial),
                         'traces_validated_against_impl': len(lines) - len(mism),
                         'rule': 'generated logs (sparse/huge/repeated/descending ids, re-definitions, writer props, clock syncs) '
                                 'with one invalid entry of a listed kind inserted at a random position, plus SegmentedMap '
                                 'emplace/find scripts checked against std::map; non-trivial = the inserted entry was reported as an '
                                 'error (or any segmap script); distinct by input line'})
    ctx.samples = [lines[1][:300], lines[0][:300]]
    return ctx.finish()


# ------------------------------------------------------------------------------------------
# C15
# ------------------------------------------------------------------------------------------

C15_THEOREMS = ['BinlogVerif.C15.isUnknownSpecial_iff', 'BinlogVerif.C15.c15_unknown_specials',
                'BinlogVerif.C15.c15_insert_unknown', 'BinlogVerif.C15.c15_trailing_metadata',
                'BinlogVerif.C15.c15_trailing_metadata_state', 'BinlogVerif.C15.c15_trailing_event']


def check_c15(ctx):
    ok = proof_step(ctx, 'BinlogVerif.Props.C15', C15_THEOREMS)
    exe = build_harness('reader_harness')
    rng = random.Random(ctx.seed * 1000003 + 15)
    n = cases_count(ctx, 1200, 25000)
    lines, meta = [], []
    for i in range(n):
        log = G.rand_log(rng, n_entries=rng.choice([1, 3, 6, 12, 20]))
        deco = []
        pads = []
        for p in log:
            while rng.random() < 0.3:
                deco.append(G.rand_unknown_special(rng))
            tag = int.from_bytes(p[:8], 'little')
            pad = G.rand_bytes(rng, 7) if rng.random() < 0.5 else b''
            if tag < (1 << 63):
                pads.append(pad)
            deco.append(p + pad)
        while rng.random() < 0.3:
            deco.append(G.rand_unknown_special(rng))
        lines.append('readall ' + G.hexs(G.frames(log))); meta.append(None)
        lines.append('readall ' + G.hexs(G.frames(deco))); meta.append(pads)
    impl, model, mism = diff_streams(ctx, 'decorate', exe, lines)
    prop_fail, nontrivial = set(), set()
    for i in range(0, len(lines), 2):
        if i + 1 >= len(impl):
            break
        a = parse_items(parse_kv(impl[i]).get('items', ''))
        b = parse_items(parse_kv(impl[i + 1]).get('items', ''))
        pads = meta[i + 1]
        good = len(a) == len(b)
        if good:
            j = 0
            for x, y in zip(a, b):
                if x.startswith('E(') and not y.startswith('E('):
                    good = False          # an event of the original became an error (or something else) in the decorated log
                elif x.startswith('E('):
                    fx, fy = item_source_fields(x), item_source_fields(y)
                    pad = pads[j].hex()
                    j += 1
                    ax, ay = fx.pop('args'), fy.pop('args')
                    if fx != fy or ay != ax + pad:
                        good = False
                elif x != y:
                    good = False
        if not good:
            prop_fail.add(i + 1)
            ctx.violation('decorate-%s' % hashlib.sha256(lines[i + 1].encode()).hexdigest()[:10],
                          'C15: unknown special entries / trailing bytes changed what the reader reports',
                          {'kind': 'input', 'input_line': lines[i + 1], 'base_line': lines[i], 'impl_decorated': impl[i + 1], 'impl_base': impl[i]})
        elif lines[i] != lines[i + 1]:
            nontrivial.add(lines[i + 1])
    report_corr(ctx, 'decorate', lines, impl, model, mism, prop_fail)
    finish_proof(ctx, ok, bool(prop_fail))
    ctx.coverage.update({'evaluations': len(lines), 'distinct_nontrivial': len(nontrivial),
                         'traces_validated_against_impl': len(lines) - len(mism),
                         'rule': 'generated well-formed logs; decorated copy = unknown special entries (top bit set, not -1/-2/-3) '
                                 'inserted at random positions and random trailing bytes appended to entries of every kind '
                                 '(size prefix adjusted); non-trivial = decoration changed the bytes; distinct by input line'})
    ctx.samples = [lines[1][:300]]
    return ctx.finish()


# ------------------------------------------------------------------------------------------
# C16
# ------------------------------------------------------------------------------------------

C16_THEOREMS = ['BinlogVerif.C16.c16_commutes_from', 'BinlogVerif.C16.c16_commutes',
                'BinlogVerif.C16.writeAllowed_frames', 'BinlogVerif.C16.filterAll_append',
                'BinlogVerif.C16.c16_metadata_passes', 'BinlogVerif.C16.c16_count']


def rand_pred(rng):
    k = rng.randrange(6)
    if k == 0: return 'sev:%d' % rng.choice([0, 64, 128, 256, 512, 1024])
    if k == 1: return 'cat:' + G.rand_bytes(rng, 5, b'abcXY').hex()
    if k == 2:
        m = rng.choice([1, 2, 3]); return 'line:%d:%d' % (m, rng.randrange(m))
    if k == 3: return 'fn:' + G.rand_bytes(rng, 2, b'fgmain_:').hex()
    if k == 4: return 'sev:512'
    return rng.choice(['all', 'none'])


def py_pred(p, f):
    a = p.split(':')
    if a[0] == 'sev': return f['severity'] >= int(a[1])
    if a[0] == 'cat': return f['category'] == bytes.fromhex(a[1])
    if a[0] == 'line': return int(a[1]) != 0 and f['line'] % int(a[1]) == int(a[2])
    if a[0] == 'fn': return f['function'].startswith(bytes.fromhex(a[1]))
    return a[0] == 'all'


def c16_redefinition_log(rng):
    """logs of several runs concatenated: the same small ids defined again with other properties"""
    out = []
    for run in range(rng.choice([2, 3, 4])):
        ids = [1, 2, 3][:rng.choice([1, 2, 3])]
        for id in ids:
            out.append(G.source_payload(id, rng.choice(G.SEVERITIES), G.rand_bytes(rng, 5, b'abcXY'),
                                        G.rand_bytes(rng, 6, b'fgmain_:'), b'f.cpp', rng.randrange(0, 9), b'm {}', b'i'))
        if rng.random() < 0.5:
            out.append(G.wp_payload(run, b'w%d' % run, 0))
        for _ in range(rng.choice([1, 3, 6])):
            out.append(G.event_payload(rng.choice(ids), rng.randrange(100), G.u32(rng.randrange(1 << 32))))
    return out


def check_c16(ctx):
    ok = proof_step(ctx, 'BinlogVerif.Props.C16', C16_THEOREMS)
    exe = build_harness('reader_harness')
    rng = random.Random(ctx.seed * 1000003 + 16)
    n = cases_count(ctx, 1500, 30000)
    lines, meta = [], []
    # corpus first: the witness of the fixed defect (re-definition with a rejected source)
    corpus = [G.source_payload(5, 512), G.event_payload(5, 1), G.source_payload(5, 128), G.event_payload(5, 2)]
    cases = [('sev:512', corpus, [corpus])]
    for i in range(n):
        log = c16_redefinition_log(rng) if i % 2 == 0 else [p for p in G.rand_log(rng) if p[:8] != b'' and len(p) >= 8]
        cases.append((rand_pred(rng), log, G.rand_chunking(rng, log)))
    for pred, log, chunks in cases:
        lines.append('filter %s %s' % (pred, ','.join(G.frames(c).hex() for c in chunks) if chunks else '-'))
        meta.append(('filter', pred, log))
        lines.append('readall ' + G.hexs(G.frames(log))); meta.append(('base',))
    impl, model, mism = diff_streams(ctx, 'filter', exe, lines)
    # second pass: read the implementation's filtered bytes with the implementation's reader
    lines2 = []
    for i in range(0, len(lines), 2):
        out = parse_kv(impl[i]).get('out', '') if i < len(impl) else ''
        lines2.append('readall ' + (out or '-'))
    impl2, model2, mism2 = diff_streams(ctx, 'read-filtered', exe, lines2)
    prop_fail, nontrivial = set(), set()
    for c in range(len(lines2)):
        i = 2 * c
        if i + 1 >= len(impl) or c >= len(impl2):
            break
        pred, log = meta[i][1], meta[i][2]
        kv = parse_kv(impl[i])
        base = parse_items(parse_kv(impl[i + 1]).get('items', ''))
        filt = parse_items(parse_kv(impl2[c]).get('items', ''))
        if kv.get('err', '-') != '-':
            continue
        if any(x.startswith('X(') for x in base):
            continue   # not a well-formed stream (an event of a never-defined id etc.)
        want = [x for x in base if py_pred(pred, item_source_fields(x))]
        good = (filt == want)
        # metadata passes unchanged, byte count
        outb = bytes.fromhex(kv.get('out', ''))
        totals = [int(x) for x in kv.get('totals', '').split(',') if x]
        if sum(totals) != len(outb):
            good = False
        specials = [p for p in log if int.from_bytes(p[:8], 'little') >= (1 << 63)]
        pos, got_specials = 0, []
        while pos + 4 <= len(outb):
            sz = int.from_bytes(outb[pos:pos + 4], 'little')
            pl = outb[pos + 4:pos + 4 + sz]
            if int.from_bytes(pl[:8], 'little') >= (1 << 63):
                got_specials.append(pl)
            pos += 4 + sz
        if got_specials != specials:
            good = False
        if not good:
            prop_fail.add(i)
            key = 'redefined-id-rejected' if c == 0 else 'filter-%s' % hashlib.sha256(lines[i].encode()).hexdigest()[:10]
            ctx.violation(key, 'C16: filtering then reading differs from reading then filtering',
                          {'kind': 'input', 'input_line': lines[i], 'pred': pred, 'impl_filter': impl[i],
                           'impl_read_filtered': impl2[c], 'impl_read_base': impl[i + 1], 'expected_items': want})
        elif len(want) not in (0, len(base)):
            nontrivial.add(lines[i])
    report_corr(ctx, 'filter', lines, impl, model, mism, prop_fail)
    report_corr(ctx, 'read-filtered', lines2, impl2, model2, mism2, set())
    finish_proof(ctx, ok, bool(prop_fail))
    ctx.coverage.update({'evaluations': len(lines) + len(lines2), 'distinct_nontrivial': len(nontrivial),
                         'traces_validated_against_impl': len(lines) + len(lines2) - len(mism) - len(mism2),
                         'rule': 'generated streams (half of them several concatenated runs re-defining ids 1..3 with other '
                                 'properties), predicates from a small language over source fields, random whole-entry chunkings; '
                                 'real EventFilter output re-read by the real EventStream and compared with reading then filtering '
                                 '(python predicate), metadata pass-through and byte counts; non-trivial = the predicate keeps some '
                                 'but not all events; distinct by input line'})
    ctx.samples = [lines[0][:300], lines[2][:300]]
    return ctx.finish()


# ------------------------------------------------------------------------------------------
# C18
# ------------------------------------------------------------------------------------------

C18_THEOREMS = ['BinlogVerif.C18.c18_perm_stable', 'BinlogVerif.C18.c18_unsorted_is_prefix']


def c18_log(rng):
    out = [G.source_payload(1, 128), G.source_payload(2, 512)]
    clocks = [rng.choice([1, 2, 3, 5, 5, 5, 8, rng.randrange(20)]) for _ in range(rng.choice([0, 1, 3, 8, 20]))]
    if rng.random() < 0.6:
        out.insert(0, G.cs_payload(rng.randrange(100), 10 ** 9, rng.randrange(1 << 40), 0, b'UTC'))
    for c in clocks:
        if rng.random() < 0.2:
            # writer names are printed (%n): also bytes a C string function would stop at or a terminal would interpret
            out.append(G.wp_payload(rng.randrange(4), G.rand_bytes(rng, 3, b'ab\x00' if rng.random() < 0.4 else b'ab'), 0))
        if rng.random() < 0.15:
            # a further clock sync in the middle of the log (setClockSync while running, concatenated logs): same or different
            out.append(G.cs_payload(rng.randrange(100), rng.choice([10 ** 9, 10 ** 9, 1000]), rng.randrange(1 << 40), rng.choice([0, 3600]), b'CET'))
        if rng.random() < 0.1:
            out.append(G.source_payload(rng.choice([1, 2]), rng.choice(G.SEVERITIES), line=rng.randrange(50)))
        out.append(G.event_payload(rng.choice([1, 2]), c, G.rand_bytes(rng, 3)))
    return out


def check_c18(ctx):
    ok = proof_step(ctx, 'BinlogVerif.Props.C18', C18_THEOREMS)
    exe = build_harness('reader_harness')
    rng = random.Random(ctx.seed * 1000003 + 18)
    n = cases_count(ctx, 1500, 30000)
    lines = []
    # corpus first: the witness of the fixed defect (log ending in a truncated entry)
    w = G.frames([G.source_payload(1, 128), G.event_payload(1, 7), G.event_payload(1, 3)]) + b'\x10\x00\x00\x00\x01'
    files = [w]
    for i in range(n):
        log = c18_log(rng)
        data = G.frames(log)
        k = rng.randrange(4)
        if k == 0:
            # trailing garbage: 1..3 stray bytes, or a small size field with a short payload
            data += (bytes(rng.randrange(256) for _ in range(rng.randrange(1, 4))) if rng.random() < 0.5 else
                     G.u32(rng.randrange(9, 64)) + bytes(rng.randrange(256) for _ in range(rng.randrange(0, 8))))
        elif k == 1 and len(data) > 4:
            data = data[:rng.randrange(len(data))]                                      # truncated
        elif k == 2:
            data += G.frame(G.event_payload(99, 1))                                     # invalid entry at the end
        files.append(data)
    for d in files:
        lines.append('print 0 ' + G.hexs(d))
        lines.append('print 1 ' + G.hexs(d))
    impl, model, mism = diff_streams(ctx, 'print', exe, lines)
    prop_fail, nontrivial = set(), set()
    for i in range(0, len(lines), 2):
        if i + 1 >= len(impl):
            break
        u, s = parse_kv(impl[i]), parse_kv(impl[i + 1])
        ul = [l for l in bytes.fromhex(u.get('text', '')).split(b'\n') if l]
        sl = [l for l in bytes.fromhex(s.get('text', '')).split(b'\n') if l]
        want = sorted(ul, key=lambda l: int(l.split(b' ')[0]))     # python's sort is stable
        if sl != want or u.get('err') != s.get('err'):
            prop_fail.add(i + 1)
            key = 'sorted-drops-on-error' if (not sl and ul and u.get('err') != '-') else \
                'sort-%s' % hashlib.sha256(lines[i].encode()).hexdigest()[:10]
            ctx.violation(key, 'C18: sorted reading is not a stable reordering of unsorted reading',
                          {'kind': 'input', 'input_line': lines[i + 1], 'impl_sorted': impl[i + 1], 'impl_unsorted': impl[i]})
        elif want != ul:
            nontrivial.add(lines[i])
    report_corr(ctx, 'print', lines, impl, model, mism, prop_fail)
    finish_proof(ctx, ok, bool(prop_fail))
    ctx.coverage.update({'evaluations': len(lines), 'distinct_nontrivial': len(nontrivial),
                         'traces_validated_against_impl': len(lines) - len(mism),
                         'rule': 'generated logs with out-of-order clocks, many ties, re-definitions, writer changes and further clock syncs in the middle, a quarter '
                                 'each ending in garbage / truncated / an invalid entry; real printEvents vs printSortedEvents; '
                                 'non-trivial = sorting changes the line order; distinct by input line'})
    ctx.samples = [lines[1][:300], lines[3][:300]]
    return ctx.finish()


# ------------------------------------------------------------------------------------------
# C12
# ------------------------------------------------------------------------------------------

C12_THEOREMS = ['BinlogVerif.C12.c12_position', 'BinlogVerif.C12.splitEntries_frames',
                'BinlogVerif.C12.c12_resume_step', 'BinlogVerif.C12.c12_prefix', 'BinlogVerif.C12.c12_prefix_events',
                'BinlogVerif.C12.c12_textout_prefix']


def check_c12(ctx):
    ok = proof_step(ctx, 'BinlogVerif.Props.C12', C12_THEOREMS)
    exe = build_harness('reader_harness')
    rng = random.Random(ctx.seed * 1000003 + 12)
    nlogs = cases_count(ctx, 40, 600)
    lines, meta = [], []
    for li in range(nlogs):
        log = [p for p in G.rand_log(rng, n_entries=rng.choice([1, 2, 4, 7, 12]))]
        data = G.frames(log)
        lines.append('readall ' + G.hexs(data)); meta.append(('full', log, data))
        cuts = range(len(data) + 1) if (ctx.tier == 'thorough' or len(data) <= 160) else \
            sorted(set(rng.randrange(len(data) + 1) for _ in range(120)))
        for n in cuts:
            lines.append('readall ' + G.hexs(data[:n])); meta.append(('cut', log, data, n))
        for _ in range(6):
            k = rng.choice([2, 3, 5])
            pts = sorted(rng.randrange(len(data) + 1) for _ in range(k - 1))
            pieces = [data[a:b] for a, b in zip([0] + pts, pts + [len(data)])]
            lines.append('resume ' + ','.join(p.hex() for p in pieces)); meta.append(('resume', log, data))
    # logs with one LARGE entry (an event carrying a long string): readers that take the payload in blocks, or size their
    # buffer lazily, are only exercised by entries larger than any block size; cuts are biased to the multiples of the powers
    # of two inside the large entry
    nbig = cases_count(ctx, 4, 40)
    for li in range(nbig):
        big = rng.choice([4095, 4096, 4097, 5000, 8191, 8192, 8193, 10000, 16385, 70000][:7 if ctx.tier == 'quick' else 10])
        log = [G.cs_payload(1, 10 ** 9, 0, 0, b'UTC'), G.source_payload(1, 128, b'c', b'f', b'x.cpp', 1, b'{}', b'[c'),
               G.event_payload(1, 5, G.u32(3) + b'abc'),
               G.event_payload(1, 6, G.u32(big) + bytes(97 + (i * 7 + li) % 26 for i in range(big))),
               G.event_payload(1, 7, G.u32(2) + b'yz')]
        data = G.frames(log)
        start = len(G.frames(log[:3]))
        lines.append('readall ' + G.hexs(data)); meta.append(('full', log, data))
        cuts = {start, start + 3, start + 4, start + 4 + 16, len(data) - 1, len(data), len(data) - 14, len(data) - 15}
        for blk in (512, 1024, 4096, 8192, 65536):
            for k in range(1, 3):
                for d in (-1, 0, 1, 4, 5, 24, 25):
                    cuts.add(start + blk * k + d)
        cuts |= set(rng.randrange(len(data) + 1) for _ in range(12))
        for n in sorted(c for c in cuts if 0 <= c <= len(data)):
            lines.append('readall ' + G.hexs(data[:n])); meta.append(('cut', log, data, n))
        for _ in range(4):
            pts = sorted({rng.choice([start + 4 + 4096, start + 4100, start + 5000, start + 8192 + 4, rng.randrange(len(data) + 1)]) for _ in range(rng.choice([1, 2, 3]))})
            pts = [x for x in pts if x <= len(data)]
            pieces = [data[a:b] for a, b in zip([0] + pts, pts + [len(data)])]
            lines.append('resume ' + ','.join(x.hex() for x in pieces)); meta.append(('resume', log, data))
    # the same through ONE TextOutputStream fed in pieces (TextOutputStream.cpp): every event that lies wholly inside a piece
    # must be on the output when the write of that piece ends (normally or with the error for the incomplete entry)
    tfmt, tdfmt = b'%S %n %m|%r\n', b'%Y'
    nto = cases_count(ctx, 25, 300)
    for li in range(nto):
        # well-formed logs whose events render without error (an event that fails to render leaves a PARTIAL line on the
        # output before the exception: robustness, C09 - not what C12 is about)
        log = [G.cs_payload(rng.randrange(100), 10 ** 9, rng.randrange(1 << 40), 0, b'UTC')]
        nsrc = rng.choice([1, 2, 3])
        for sid in range(1, nsrc + 1):
            log.append(G.source_payload(sid, rng.choice(G.SEVERITIES), b'cat', b'fn', b'f.cpp', sid, rng.choice([b'plain %d' % sid, b'v={} end', b'{}']) if sid % 2 else b'msg', b'i' if sid % 2 else b''))
        for _ in range(rng.choice([1, 3, 6, 10])):
            if rng.random() < 0.15:
                log.append(G.wp_payload(rng.randrange(9), G.rand_bytes(rng, 4, b'wab'), 0))
            sid = rng.randrange(1, nsrc + 1)
            log.append(G.event_payload(sid, rng.randrange(1000), G.u32(rng.randrange(1 << 32)) if sid % 2 else b''))
        data = G.frames(log)
        bounds = [0]
        for p_ in log:
            bounds.append(bounds[-1] + 4 + len(p_))
        for b in bounds:
            if b == 0:
                continue
            lines.append('textout %s %s %s' % (tfmt.hex(), tdfmt.hex(), data[:b].hex())); meta.append(('to-whole', b, b == bounds[1]))
        cuts = sorted(set(rng.randrange(len(data) + 1) for _ in range(10))) if ctx.tier == 'quick' else range(len(data) + 1)
        for n in cuts:
            lines.append('textout %s %s %s,%s' % (tfmt.hex(), tdfmt.hex(), data[:n].hex(), data[n:].hex()))
            meta.append(('to-cut', n, max(b for b in bounds if b <= n), n in bounds))
    impl, model, mism = diff_streams(ctx, 'prefix+resume', exe, lines)
    prop_fail, nontrivial = set(), set()
    whole_text = {}
    for i, m in enumerate(meta):
        if i >= len(impl) or m[0] not in ('to-whole', 'to-cut'):
            continue
        kv = parse_kv(impl[i])
        if m[0] == 'to-whole':
            if m[2]:
                whole_text = {0: ''}
            whole_text[m[1]] = kv.get('text', '')
        else:
            n, b, onb = m[1], m[2], m[3]
            want = whole_text.get(b)
            errs = kv.get('errs', '').split(',')
            bad = None
            if want is not None and not kv.get('text', '').startswith(want):
                bad = 'the events that lie wholly inside the first piece are not all on the output'
            elif onb and errs and errs[0] != '-' and want is not None and whole_text.get(n) is not None and 'errs=-' in impl[i - 0] and False:
                bad = None
            if bad:
                prop_fail.add(i)
                ctx.violation('textout-%s' % hashlib.sha256(lines[i].encode()).hexdigest()[:10], 'C12 (TextOutputStream): ' + bad,
                              {'kind': 'input', 'input_line': lines[i][:20000], 'cut': n, 'impl': impl[i][:4000], 'text_of_the_whole_entries_before_the_cut': want})
            elif not onb:
                nontrivial.add(lines[i])
    full_items = None
    for i, m in enumerate(meta):
        if i >= len(impl):
            break
        kv = parse_kv(impl[i])
        items = parse_items(kv.get('items', ''))
        if m[0] in ('to-whole', 'to-cut'):
            continue
        if m[0] == 'full':
            full_items = items
            full_log = m[1]
            # number of items produced by each entry prefix: via the boundaries
            continue
        log, data = m[1], m[2]
        if m[0] == 'cut':
            n = m[3]
            # entries wholly inside the cut
            pos, k = 0, 0
            for p in log:
                if pos + 4 + len(p) <= n:
                    pos += 4 + len(p); k += 1
                else:
                    break
            # items of the first k entries = prefix of the full items (entries produce 0/1 item each, in order)
            good = (items == full_items[:len(items)])
            # count: items produced by entries [0,k): determined by reading the exact prefix frames(log[:k])
            boundary = (pos == n)
            tail = kv.get('tail')
            if boundary != (tail == 'clean'):
                good = False
            if int(kv.get('consumed', '-1')) != pos:
                good = False
            # completeness: reading the cut must give as many items as reading the whole entries before it
            want_n = sum(1 for p in log[:k] if not (int.from_bytes(p[:8], 'little') >= (1 << 63)))
            if len(items) != want_n:
                good = False
            if not good:
                prop_fail.add(i)
                ctx.violation('cut-%s' % hashlib.sha256(lines[i].encode()).hexdigest()[:10],
                              'C12: reading a prefix of a well-formed log does not give exactly the whole entries before the cut',
                              {'kind': 'input', 'input_line': lines[i], 'cut': n, 'impl': impl[i], 'expected_consumed': pos,
                               'expected_items': want_n, 'boundary': boundary})
            elif not boundary:
                nontrivial.add(lines[i])
        else:
            if items != full_items or int(kv.get('pos', '-1')) != len(data):
                prop_fail.add(i)
                ctx.violation('resume-%s' % hashlib.sha256(lines[i].encode()).hexdigest()[:10],
                              'C12: reading a log delivered in pieces differs from an uninterrupted read',
                              {'kind': 'input', 'input_line': lines[i], 'impl': impl[i], 'expected_items': full_items})
            else:
                nontrivial.add(lines[i])
    report_corr(ctx, 'prefix+resume', lines, impl, model, mism, prop_fail)
    finish_proof(ctx, ok, bool(prop_fail))
    ctx.coverage.update({'evaluations': len(lines), 'distinct_nontrivial': len(nontrivial),
                         'traces_validated_against_impl': len(lines) - len(mism),
                         'rule': 'generated well-formed logs (all entry kinds); every cut offset for logs <= 160 bytes (all logs in the '
                                 'thorough tier), 120 sampled offsets otherwise; logs with one large entry (4 KiB .. 70 KB payload) cut around the multiples of '
                                 'the powers of two inside it; plus the log delivered in 2..5 pieces to a growing '
                                 'stream; non-trivial = cut strictly inside an entry, or a multi-piece delivery; distinct by input line'})
    ctx.samples = [lines[1][:200], lines[-1][:300]]
    return ctx.finish()


CHECKS = {'C12': check_c12, 'C14': check_c14, 'C15': check_c15, 'C16': check_c16, 'C18': check_c18}
