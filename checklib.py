"""Infrastructure shared by all checks: building the Lean library and the C++ harnesses from
/repo's current working tree, running model and implementation on the same line-protocol input,
auditing proofs, known findings, evidence and replay files."""
import hashlib
import json
import os
import re
import subprocess
import sys
import time
from concurrent.futures import ThreadPoolExecutor

VERIF = os.path.dirname(os.path.abspath(__file__))
REPO = os.environ.get('VERIF_REPO', '/repo')
LEAN = os.path.join(VERIF, 'lean')
BUILD = os.path.join(VERIF, 'build')
EVIDENCE = os.path.join(VERIF, 'evidence')
REPLAYS = os.path.join(VERIF, 'replays')
KNOWN = os.path.join(VERIF, 'KNOWN_FINDINGS.txt')
HOOK_GUARD = 'BINLOG_VERIF'

ALLOWED_AXIOMS = {'propext', 'Quot.sound', 'Classical.choice'}
CXXFLAGS = ['-std=c++17', '-O1', '-g', '-fsanitize=address,undefined', '-fno-sanitize-recover=all', '-fwrapv',
            '-fno-sanitize=signed-integer-overflow',
            '-UNDEBUG', '-D' + HOOK_GUARD, '-I' + os.path.join(REPO, 'include'), '-I' + os.path.join(REPO, 'bin')]

TRUSTED_BASE = [
    'Lean 4.33.0 kernel (lake build; thorough tier re-checks the property module with leanchecker)',
    'axioms allowed in #print axioms of property theorems: propext, Quot.sound, Classical.choice; no sorry/admit/native_decide/bv_decide/user axioms (audited on every run)',
    'hand-written Lean model of the anchored C++ functions; tied to /repo by differential execution of model (compiled lean_exe driver) and real code (C++ harness built from the working tree, ASan+UBSan, asserts on) on generated inputs, and by tools/extract.py constants',
    'checklib.py / check.py / harness/*.cpp / tools/*.py (generators, canonicalisation, diff)',
    'g++ 12 / libstdc++ / glibc behaviour of the harness build; little-endian x86-64 layout',
]


def sh(cmd, cwd=None, timeout=None, input=None, env=None):
    p = subprocess.run(cmd, cwd=cwd, stdout=subprocess.PIPE, stderr=subprocess.STDOUT, timeout=timeout,
                       input=input, env=env)
    return p.returncode, p.stdout.decode('utf-8', 'replace')


def file_hash(paths):
    h = hashlib.sha256()
    for p in sorted(paths):
        h.update(p.encode())
        with open(p, 'rb') as f:
            h.update(f.read())
    return h.hexdigest()[:16]


def repo_sources():
    out = []
    for sub in ('include', 'bin'):
        for root, _, files in os.walk(os.path.join(REPO, sub)):
            for f in files:
                out.append(os.path.join(root, f))
    return out


def repo_hash():
    return file_hash(repo_sources())


# ---------------------------------------------------------------------------------------------
# C++ side
# ---------------------------------------------------------------------------------------------

def lib_cpp_files():
    out = []
    for root, _, files in os.walk(os.path.join(REPO, 'include', 'binlog')):
        for f in files:
            if f.endswith('.cpp'):
                out.append(os.path.join(root, f))
    out.append(os.path.join(REPO, 'bin', 'printers.cpp'))
    return sorted(out)


def _compile(args):
    src, obj, flags = args
    if os.path.exists(obj):
        return 0, ''
    tmp = obj + '.tmp%d' % os.getpid()
    rc, out = sh(['g++'] + flags + ['-c', src, '-o', tmp])
    if rc == 0:
        os.replace(tmp, obj)
    return rc, out


def build_repo_objects(flags=None, tag='asan'):
    """compile the repo's library .cpp files (from the CURRENT working tree); cache by content hash"""
    flags = flags or CXXFLAGS
    rh = repo_hash()
    fh = hashlib.sha256(' '.join(flags).encode()).hexdigest()[:8]
    objdir = os.path.join(BUILD, 'obj-%s-%s-%s' % (tag, rh, fh))
    os.makedirs(objdir, exist_ok=True)
    jobs = []
    for src in lib_cpp_files():
        obj = os.path.join(objdir, src.replace('/', '_') + '.o')
        jobs.append((src, obj, flags))
    with ThreadPoolExecutor(max_workers=16) as ex:
        res = list(ex.map(_compile, jobs))
    for (rc, out), j in zip(res, jobs):
        if rc != 0:
            raise BuildError('compiling %s failed:\n%s' % (j[0], out))
    _gc_build_dirs('obj-%s-' % tag, keep=objdir)
    return [j[1] for j in jobs]


class BuildError(Exception):
    pass


def _gc_build_dirs(prefix, keep):
    """remove stale cached builds (other repo hashes) to bound disk use"""
    try:
        for d in os.listdir(BUILD):
            p = os.path.join(BUILD, d)
            if d.startswith(prefix) and p != keep and os.path.isdir(p):
                age = time.time() - os.path.getmtime(p)
                if age > 600:
                    subprocess.run(['rm', '-rf', p])
    except FileNotFoundError:
        pass


def build_harness(name, link_repo=True, extra_flags=None, tag='asan', sources=None):
    """build harness/<name>.cpp against the current /repo tree; returns the binary path"""
    flags = list(CXXFLAGS) + (extra_flags or [])
    src = os.path.join(VERIF, 'harness', name + '.cpp')
    deps = [src] + (sources or [])
    hdir = os.path.join(VERIF, 'harness')
    for root, _, files in os.walk(hdir):
        for f in files:
            if f.endswith('.hpp'):
                deps.append(os.path.join(root, f))
    hh = file_hash(deps + repo_sources()) + hashlib.sha256(' '.join(flags).encode()).hexdigest()[:6]
    bindir = os.path.join(BUILD, 'bin')
    os.makedirs(bindir, exist_ok=True)
    exe = os.path.join(bindir, '%s-%s' % (name, hh))
    if os.path.exists(exe):
        return exe
    objs = build_repo_objects(flags if extra_flags else None, tag=tag) if link_repo else []
    tmp = exe + '.tmp%d' % os.getpid()
    rc, out = sh(['g++'] + flags + [src] + (sources or []) + objs + ['-o', tmp, '-lpthread'])
    if rc != 0:
        raise BuildError('building harness %s failed:\n%s' % (name, out))
    os.replace(tmp, exe)
    for f in os.listdir(bindir):
        if f.startswith(name + '-') and os.path.join(bindir, f) != exe:
            if time.time() - os.path.getmtime(os.path.join(bindir, f)) > 600:
                os.remove(os.path.join(bindir, f))
    return exe


def run_lines(exe, lines, timeout=600, env=None, stall=None):
    """feed lines to a line-protocol process; returns (rc, list of output lines, raw tail).
    With `stall` (seconds): the process is watched while it runs (the harnesses flush one output line per input line); if no new
    output line appears for `stall` seconds it is killed and rc = -999 ('hang'): the first unanswered input line is the one it
    hangs on."""
    data = ('\n'.join(lines) + '\n').encode()
    e = dict(os.environ)
    e['ASAN_OPTIONS'] = 'detect_leaks=0:abort_on_error=0'
    e['UBSAN_OPTIONS'] = 'print_stacktrace=1'
    if env:
        e.update(env)
    cmd = [exe] if isinstance(exe, str) else exe
    if stall is None:
        p = subprocess.run(cmd, input=data, stdout=subprocess.PIPE, stderr=subprocess.PIPE, timeout=timeout, env=e)
        out = p.stdout.decode('utf-8', 'replace').split('\n')
        if out and out[-1] == '':
            out.pop()
        return p.returncode, out, p.stderr.decode('utf-8', 'replace')[-4000:]
    import threading
    import tempfile
    errf = tempfile.TemporaryFile()
    p = subprocess.Popen(cmd, stdin=subprocess.PIPE, stdout=subprocess.PIPE, stderr=errf, env=e)
    chunks, last = [], [time.time()]

    def reader():
        while True:
            b = p.stdout.read1(1 << 16)
            if not b:
                break
            chunks.append(b)
            last[0] = time.time()

    def writer():
        try:
            p.stdin.write(data)
            p.stdin.close()
        except (BrokenPipeError, OSError):
            pass
    tr, tw = threading.Thread(target=reader, daemon=True), threading.Thread(target=writer, daemon=True)
    tr.start(); tw.start()
    hung = False
    t0 = time.time()
    while p.poll() is None:
        time.sleep(0.2)
        if time.time() - last[0] > stall or time.time() - t0 > timeout:
            hung = True
            p.kill()
            break
    p.wait()
    tr.join(timeout=5)
    text = b''.join(chunks).decode('utf-8', 'replace')
    out = text.split('\n')
    if out and out[-1] == '':
        out.pop()
    elif out and hung:
        out.pop()          # an incomplete last line
    errf.seek(0)
    err = errf.read().decode('utf-8', 'replace')[-4000:]
    errf.close()
    if hung:
        return -999, out, 'HANG: no output for %d s (killed). ' % stall + err[-1500:]
    return p.returncode, out, err


# ---------------------------------------------------------------------------------------------
# Lean side
# ---------------------------------------------------------------------------------------------

_AUDIT_PAT = re.compile(r'\b(sorry|admit|native_decide|bv_decide|implemented_by|unsafe)\b|^\s*axiom\s|maxHeartbeats\s+0')


def lean_sources():
    out = []
    for root, dirs, files in os.walk(LEAN):
        if '.lake' in root:
            continue
        for f in files:
            if f.endswith('.lean'):
                out.append(os.path.join(root, f))
    return sorted(out)


def strip_lean_comments(text):
    # remove block comments (nested) and line comments
    out = []
    i, depth, n = 0, 0, len(text)
    while i < n:
        if text.startswith('/-', i):
            depth += 1
            i += 2
        elif depth and text.startswith('-/', i):
            depth -= 1
            i += 2
        elif depth:
            if text[i] == '\n':
                out.append('\n')
            i += 1
        elif text.startswith('--', i):
            while i < n and text[i] != '\n':
                i += 1
        else:
            out.append(text[i])
            i += 1
    return ''.join(out)


def grep_forbidden():
    hits = []
    for p in lean_sources():
        txt = strip_lean_comments(open(p, encoding='utf-8').read())
        for ln, line in enumerate(txt.split('\n'), 1):
            if _AUDIT_PAT.search(line):
                hits.append('%s:%d: %s' % (os.path.relpath(p, VERIF), ln, line.strip()))
    return hits


def lake_build(targets):
    """returns (ok, log)"""
    rc, out = sh(['lake', 'build'] + targets, cwd=LEAN, timeout=3600)
    return rc == 0, out


def driver_path():
    return os.path.join(LEAN, '.lake', 'build', 'bin', 'driver')


def print_axioms(module, theorems, extra_imports=None):
    """returns {theorem: set(axioms) or None if missing/failed}"""
    tmpdir = os.path.join(BUILD, 'audit')
    os.makedirs(tmpdir, exist_ok=True)
    path = os.path.join(tmpdir, 'Audit_%s_%d.lean' % (module.replace('.', '_'), os.getpid()))
    with open(path, 'w') as f:
        f.write('import %s\n' % module)
        for extra in (extra_imports or []):
            f.write('import %s\n' % extra)
        for t in theorems:
            f.write('#print axioms %s\n' % t)
    rc, out = sh(['lake', 'env', 'lean', path], cwd=LEAN, timeout=1200)
    os.remove(path)
    res = {t: None for t in theorems}
    # messages may wrap over several lines: join continuation lines
    text = out.replace('\n  ', ' ')
    for t in theorems:
        m = re.search(r"'%s' depends on axioms: \[([^\]]*)\]" % re.escape(t), text)
        if m:
            res[t] = set(a.strip() for a in m.group(1).split(',') if a.strip())
            continue
        if re.search(r"'%s' does not depend on any axioms" % re.escape(t), text):
            res[t] = set()
    return res, out


def leanchecker(module):
    rc, out = sh(['lake', 'env', 'leanchecker', module], cwd=LEAN, timeout=3600)
    return rc == 0, out


# ---------------------------------------------------------------------------------------------
# known findings, replays, evidence
# ---------------------------------------------------------------------------------------------

def known_findings():
    """lines: `known: property=<id> key=<key> <text>` / `fixed: property=<id> <commit> <text>`"""
    res = []
    if not os.path.exists(KNOWN):
        return res
    for line in open(KNOWN):
        line = line.strip()
        m = re.match(r'known:\s+property=(\S+)\s+key=(\S+)\s+(.*)', line)
        if m:
            res.append({'property': m.group(1), 'key': m.group(2), 'text': m.group(3)})
    return res


class Ctx:
    def __init__(self, pid, tier, seed):
        self.pid = pid
        self.tier = tier
        self.seed = seed
        self.t0 = time.time()
        self.violations = []          # (key, description, replay obj, found_input)
        self.known_hits = []
        self.coverage = {}
        self.assumptions = []
        self.notes = []
        self.obligations = []         # theorem names
        self.discharged = []
        self.samples = []
        self.streams = {}             # name -> stats

    # -- violations -----------------------------------------------------------------------
    def violation(self, key, what, replay, found_input=True):
        for k in known_findings():
            if k['property'] == self.pid and k['key'] == key:
                if key not in [h[0] for h in self.known_hits]:
                    self.known_hits.append((key, k['text']))
                return
        self.violations.append((key, what, replay, found_input))

    def write_replay(self, key, what, replay, found_input):
        os.makedirs(REPLAYS, exist_ok=True)
        safe = re.sub(r'[^A-Za-z0-9_.-]', '_', key)[:80]
        path = os.path.join(REPLAYS, '%s-%s.json' % (self.pid, safe))
        obj = {'property': self.pid, 'key': key, 'what': what, 'seed': self.seed, 'tier': self.tier,
               'found_failing_input': found_input, 'replay': replay,
               'rerun': './check.py %s --replay %s' % (self.pid, path)}
        with open(path, 'w') as f:
            json.dump(obj, f, indent=1)
        return path

    # -- finishing ------------------------------------------------------------------------
    def finish(self, level='proof'):
        os.makedirs(EVIDENCE, exist_ok=True)
        cov = dict(self.coverage)
        cov.setdefault('obligations', len(self.obligations))
        cov.setdefault('discharged', len(self.discharged))
        cov['obligation_names'] = self.obligations
        cov['undischarged'] = [o for o in self.obligations if o not in self.discharged]
        cov.setdefault('checker_cmd', 'cd lean && lake build BinlogVerif.Props.%s && lake env lean <#print axioms file>' % self.pid)
        cov.setdefault('trusted_base', TRUSTED_BASE)
        cov.setdefault('samples', self.samples[:8] or ['(none)'])
        cov['streams'] = self.streams
        cov['notes'] = self.notes
        cov['known_findings_hit'] = [k for k, _ in self.known_hits]
        ev = {'property_id': self.pid, 'tier': self.tier, 'seed': self.seed, 'level': level,
              'coverage': cov, 'assumptions': self.assumptions, 'wall_s': round(time.time() - self.t0, 2),
              'violations': len(self.violations)}
        with open(os.path.join(EVIDENCE, self.pid + '.json'), 'w') as f:
            json.dump(ev, f, indent=1)
        for key, text in self.known_hits:
            print('KNOWN-FINDING: property=%s %s [%s]' % (self.pid, text, key))
        if self.violations:
            for key, what, replay, found in self.violations[:5]:
                path = self.write_replay(key, what, replay, found)
                tail = '' if found else ' no-failing-input-found'
                print('%s' % what)
                print('VIOLATION property=%s replay=%s%s' % (self.pid, path, tail))
            return 1
        print('OK property=%s tier=%s seed=%d obligations=%d/%d wall=%.1fs' % (
            self.pid, self.tier, self.seed, len(self.discharged), len(self.obligations), time.time() - self.t0))
        return 0


def run_extract(ctx):
    """regenerate lean/BinlogVerif/Generated/*.lean from /repo's working tree; returns False if the
    extractor no longer recognises the sources (a broken tie)"""
    rc, out = sh([sys.executable, os.path.join(VERIF, 'tools', 'extract.py')])
    ctx.coverage['extraction'] = out.strip()[-3000:]
    try:
        ctx.extract_info = json.loads(out.strip().split('\n')[-1])['info']
    except Exception:
        ctx.extract_info = {}
    if rc != 0:
        ctx.extract_failure = out.strip()[-2000:]
        return False
    ctx.extract_failure = None
    # per-file failures do not stop the run: the generated file then does not compile and only its dependents break
    ctx.extract_file_failures = dict((ctx.extract_info.get('failed') or {}))
    for k, v in (ctx.extract_info.get('Src') or {}).items():
        if isinstance(v, dict) and v.get('error'):
            ctx.extract_file_failures['Src:' + k] = v['error']
    return True


# bridge lemmas between the hand-written model and the definitions tools/c2lean.py generates from the C++ source text
# (lean/BinlogVerif/Lemmas/SrcBridge<Area>.lean over Generated/Src<Area>.lean), and the properties that rest on them
SRC_BRIDGE = {
    'Queue': ['maximizeWriteCapacity_bridge', 'step_pBegin_model', 'step_pBegin_src', 'beginWrite_bridge', 'writeBuffer_bridge',
              'endWrite_bridge', 'endRead_bridge', 'beginRead_bridge', 'unreadWriteSize_bridge',
              'beginRead_dataEnd', 'unreadWriteSize_dataEnd', 'maximizeWriteCapacity_dataEnd'],
    'Time': ['printTwoDigits_ok', 'printTwoDigits_digits', 'printTwoDigits_model', 'printTimeZoneOffset_spec',
             'clockToNsSinceEpoch_bridge', 'nsSinceEpochToSeconds_spec', 'nsSinceEpochToSeconds_bridge'],
    'Reader': ['rangeThrowIfOverflow_bridge', 'rangeView_bridge', 'ostreamBufferReserve_bridge', 'ostreamBufferReserve_room',
               'ostreamBufferFlush_bridge', 'ostreamBufferPut_bridge'],
    'Recovery': ['checkQueueInvariants_bridge'],
}
SRC_BRIDGE_FOR = {'C01': ['Queue'], 'C10': ['Queue'], 'C11': ['Queue'], 'C08': ['Queue', 'Recovery'], 'C20': ['Queue', 'Recovery'],
                  'C17': ['Time'], 'C09': ['Reader', 'Time'], 'C07': ['Reader'], 'C05': ['Reader'], 'C12': ['Reader']}


def proof_step(ctx, module, theorems, extra_targets=None):
    theorems = list(theorems)
    extra_targets = list(extra_targets or [])
    for area in SRC_BRIDGE_FOR.get(ctx.pid, []):
        extra_targets.append('BinlogVerif.Lemmas.SrcBridge%s' % area)
        theorems += ['BinlogVerif.SrcBridge.' + t for t in SRC_BRIDGE[area]]
    return _proof_step(ctx, module, theorems, extra_targets)


def _proof_step(ctx, module, theorems, extra_targets=None):
    """Build the property module and audit it.  Returns True iff every obligation is discharged.
    On failure nothing is reported yet: the caller runs the counterexample search first."""
    ctx.obligations = list(theorems)
    if not run_extract(ctx):
        ctx.proof_failure = 'tools/extract.py no longer recognises the sources: ' + ctx.extract_failure
        ctx.proof_log = ctx.extract_failure
        # still build what can be built, so that the correspondence and the search can run
        lake_build(['driver'])
        return False
    targets = [module, 'driver', 'BinlogVerif.Generated.Consts'] + (extra_targets or [])
    ok, log = lake_build(targets)
    ctx.coverage['lake_build_ok'] = ok
    if not ok:
        ctx.notes.append('lake build failed: ' + log[-3000:])
        ff = getattr(ctx, 'extract_file_failures', {})
        ctx.proof_failure = 'lake build %s failed' % module + ((' (the extractor/translator no longer recognises: %s)' % '; '.join('%s: %s' % kv for kv in ff.items())[:600]) if ff else '')
        ctx.proof_log = log[-3000:]
        return False
    hits = grep_forbidden()
    if hits:
        ctx.notes.append('forbidden constructs: ' + '; '.join(hits[:10]))
        ctx.proof_failure = 'forbidden construct in Lean sources: ' + hits[0]
        ctx.proof_log = '\n'.join(hits)
        return False
    ax, out = print_axioms(module, theorems, ['BinlogVerif.Generated.Consts'] + [t for t in (extra_targets or []) if t.startswith('BinlogVerif.')])
    bad = []
    for t in theorems:
        if ax[t] is None:
            bad.append('%s: missing or does not check' % t)
        elif not ax[t] <= ALLOWED_AXIOMS:
            bad.append('%s: uses axioms %s' % (t, sorted(ax[t] - ALLOWED_AXIOMS)))
        else:
            ctx.discharged.append(t)
    ctx.coverage['axioms'] = {t: (sorted(a) if a is not None else None) for t, a in ax.items()}
    if bad:
        ctx.proof_failure = 'axiom audit: ' + '; '.join(bad)
        ctx.proof_log = out[-3000:]
        return False
    if ctx.tier == 'thorough':
        ok, out = leanchecker(module)
        ctx.coverage['leanchecker_ok'] = ok
        if not ok:
            ctx.proof_failure = 'leanchecker rejected %s' % module
            ctx.proof_log = out[-3000:]
            return False
    ctx.proof_failure = None
    return True


def run_model_lines(lines, jobs=8, timeout=3 * 3600):
    """the model driver on the lines (every line is a self-contained case): contiguous chunks in parallel processes; the
    outputs keep their positions (a chunk whose driver died is padded)"""
    if len(lines) < 64:
        return run_lines(driver_path(), lines, timeout=timeout)
    from concurrent.futures import ThreadPoolExecutor
    k = min(jobs, max(1, len(lines) // 32))
    size = (len(lines) + k - 1) // k
    chunks = [lines[i:i + size] for i in range(0, len(lines), size)]
    with ThreadPoolExecutor(max_workers=k) as ex:
        res = list(ex.map(lambda c: run_lines(driver_path(), c, timeout=timeout), chunks))
    rc, out, err = 0, [], ''
    for c, (rc_c, out_c, err_c) in zip(chunks, res):
        if rc_c != 0 or len(out_c) != len(c):
            rc = rc_c or -1
            err = err or err_c
            out_c = (out_c + ['<no output: driver died: %s>' % err_c[-300:]] * len(c))[:len(c)]
        out.extend(out_c)
    return rc, out, err


def diff_streams(ctx, name, harness_exe, lines, describe=None, env=None, stall=90):
    """Run implementation and model on the same lines; record stats; returns
    (impl_out, model_out, mismatches[list of indices])."""
    t0 = time.time()
    rc_i, impl, err_i = run_lines(harness_exe, lines, env=env, stall=stall, timeout=6 * 3600)
    # the real code died in the middle of the stream (sanitizer report, failed assert, crash): remember where, and go on
    # with the cases after it so that one fatal case does not hide the others
    died = []
    restarts = 0
    hangs = 0
    while rc_i != 0 and len(impl) < len(lines) and restarts < 8 and hangs < 2:
        at = len(impl)
        hangs += 1 if rc_i == -999 else 0
        died.append((at, err_i[-2500:]))
        impl.append('<harness died: %s>' % ' '.join((err_i[:200] if err_i.startswith('HANG') else err_i[-300:]).split()))
        restarts += 1
        rc_i, more, err_i = run_lines(harness_exe, lines[at + 1:], env=env, stall=stall, timeout=6 * 3600)
        impl.extend(more)
    ctx.died = getattr(ctx, 'died', {})
    ctx.died[name] = died
    rc_m, model, err_m = run_model_lines(lines)
    st = ctx.streams.setdefault(name, {})
    st['cases'] = len(lines)
    st['impl_rc'] = rc_i
    st['model_rc'] = rc_m
    st['wall_s'] = round(time.time() - t0, 2)
    mism = []
    n = max(len(impl), len(model))
    for i in range(len(lines)):
        a = impl[i] if i < len(impl) else '<no output: harness died: %s>' % err_i[-600:]
        b = model[i] if i < len(model) else '<no output: driver died: %s>' % err_m[-600:]
        if a != b:
            mism.append(i)
    st['mismatches'] = len(mism)
    st['impl_died_on_cases'] = [d[0] for d in died]
    if rc_i != 0:
        st['impl_stderr_tail'] = err_i[-1500:]
    return impl, model, mism
