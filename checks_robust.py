"""C09 — reader robustness: arbitrary bytes and format strings."""
import os
import random
import struct
import hashlib
import subprocess
import sys
import resource

sys.path.insert(0, os.path.join(os.path.dirname(os.path.abspath(__file__)), 'tools'))
import binlog_gen as G
import gen_types as GT
from checklib import *
from checks_reader import parse_kv, finish_proof, cases_count

C09_THEOREMS = ['BinlogVerif.C09.c09_no_trap', 'BinlogVerif.C09.c09_error_is_std', 'BinlogVerif.C09.c09_text_output_stream_no_trap',
                'BinlogVerif.C09.c09_visit_no_trap', 'BinlogVerif.C09.c09_recursion_bounded', 'BinlogVerif.Generated.max_recursion',
                'BinlogVerif.Generated.repeat_threshold']

EVENT_FORMATS = [b'%S %C [%d] %n %m (%G:%L)\n', b'%m\n', b'%I %S %C %M %F %G %L %P %T %n %t %d %u %r %m %% %q %\n', b'%u|%m\n',
                 b'%d %m\n', b'', b'%', b'%%%', b'x\n', b'%m %m\n', b'%T|%P\n']
DATE_FORMATS = [b'%Y-%m-%d %H:%M:%S.%N', b'%Y %y %m %d %H %M %S %z %Z %N %q %% %', b'', b'%z', b'%y']


def typed_log(rng, nstmts=None):
    """a valid log: clock sync, sources whose argument tags describe generated types, events with encoded values"""
    g = GT.Gen(rng, 'r')
    out = [G.cs_payload(rng.randrange(1 << 20), rng.choice([1, 1000, 10 ** 9, 3 * 10 ** 9]), rng.randrange(1 << 61),
                        rng.choice([0, 3600, (-18000) & 0xffffffff]), rng.choice([b'UTC', b'CET', b'']))]
    if rng.random() < 0.5:
        out.append(G.wp_payload(rng.randrange(100), G.rand_bytes(rng, 5, b'main_w1'), 0))
    nstmts = rng.choice([1, 2, 4]) if nstmts is None else nstmts
    sid = 0
    for _ in range(nstmts):
        sid += 1
        nargs = rng.choice([0, 1, 1, 2, 3])
        tys = [g.rand_ty(depth=1) for _ in range(nargs)]
        tys = [t for t in tys if 'D' not in GT.py_tag(t)]
        fmt = b' '.join([rng.choice([b'x', b'val:', b'']) + b'{}' for _ in tys]) + rng.choice([b'', b' end', b' {', b' }{'])
        tags = ''.join(GT.py_tag(t) for t in tys).encode('latin1')
        out.append(G.source_payload(sid, rng.choice(G.SEVERITIES), b'cat', b'fn', b'dir/file.cpp', rng.randrange(1000), fmt, tags))
        for _ in range(rng.choice([1, 2])):
            args = b''.join(GT.py_encode(t, g.rand_val(t, 1)) for t in tys)
            out.append(G.event_payload(sid, rng.randrange(1 << 40), args))
    return out


def mutate(rng, payloads):
    ps = [bytearray(p) for p in payloads]
    for _ in range(rng.choice([1, 1, 2, 4])):
        if not ps:
            break
        p = rng.choice(ps)
        k = rng.randrange(8)
        if not p:
            continue
        if k == 0:
            p[rng.randrange(len(p))] ^= 1 << rng.randrange(8)
        elif k == 1:
            p[rng.randrange(len(p))] = rng.choice(b'[(<{/\\`\'0)>}iIcyDdfLl\x00\xff')
        elif k == 2:
            del p[rng.randrange(len(p)):]
        elif k == 3:
            i = rng.randrange(len(p)); p[i:i] = bytes(rng.choice(b'[[[((<<{{//') for _ in range(rng.choice([1, 3, 40])))
        elif k == 4 and len(p) >= 4:
            i = rng.randrange(len(p) - 3); p[i:i + 4] = G.u32(rng.choice([33, 40, 1000, 70000, 300000]))
        elif k == 5:
            p += bytes(rng.randrange(256) for _ in range(rng.randrange(1, 9)))
        elif k == 6 and len(p) >= 8:
            i = rng.randrange(len(p) - 7); p[i:i + 8] = G.u64(rng.choice([0, 1 << 63, (1 << 64) - 1, 0x8000000000000001]))
        else:
            i = rng.randrange(len(p)); j = rng.randrange(len(p)); p[i], p[j] = p[j], p[i]
    return [bytes(p) for p in ps]


def hostile_tags(rng):
    """small inputs with hostile type tags: deep nesting, huge counts of zero-size elements, bad enums"""
    k = rng.randrange(10)
    if k >= 8:
        # unterminated / degenerate struct, enum and bracket intros (empty names, names without field lists, lone openers),
        # alone, nested in every bracket kind, and as the element of a sequence of more than 32 elements
        core = rng.choice([b'{x', b'{', b'{`', b"{`a'", b'{}', b'{}x', b'{A', b'{A`', b"{A`f'", b"{A`f'{", b'{{', b'{x{x', b'/', b'/i', b'/i`', b"/i`E'", b'<', b'(', b'[',
                           b'{x}', b"{x`'", b'{ ', b'{\\', b"{'", b'{`}', b"{A`f'{A", b"{A`f'{A}}", b"{A`f'{B}}"])
        wrap = rng.choice([b'%s', b'(%s)', b'<%s>', b'[%s', b'(i%s)', b'<0%s>', b"{S`f'%s}", b'[(%s)'])
        tag = wrap % core
        args = G.u32(rng.choice([0, 1, 33, 40])) + bytes(rng.choice([0, 1, 2]) for _ in range(rng.choice([0, 8, 64])))
    elif k == 7:
        # nesting around the recursion limit below a sequence of more than 32 elements: the limit is consumed by `singular` first
        d = rng.choice([1000, 2040, 2044, 2045, 2046, 2047, 2048, 2049, 2050, 2060])
        op = rng.choice([b'(', b'[', b'<', b'{'])
        inner = (b"{S`a'" * d + b'()' + b'}' * d) if op == b'{' else (op * d + (b'()' if op != b'<' else b'') + {b'(': b')', b'[': b'', b'<': b'>'}[op] * d)
        tag = b'[' + inner
        # (more than 32 elements: with fewer the model's list-append output makes 32 visits of a 2000-deep value take minutes)
        args = G.u32(rng.choice([33, 40, 1000])) + bytes(rng.choice([0, 0, 1]) for _ in range(rng.choice([0, 40, 200])))
    elif k == 0:
        tag = b'[' * rng.choice([10, 2047, 2048, 2100]) + b'i'
        args = G.u32(1) * rng.choice([3, 2048])
    elif k == 1:
        tag = b'(' * rng.choice([100, 3000]) + b')' * rng.choice([100, 3000])
        args = b''
    elif k == 2:
        tag = b'[()'
        args = G.u32(rng.choice([0, 32, 33, 1000, 20000]))
    elif k == 3:
        tag = b'/' + rng.choice([b'i', b'q', b'f', b'y', b'']) + b"`E'" + rng.choice([b"0`a'", b"7B`b", b""]) + rng.choice([b'\\', b''])
        args = G.u32(rng.choice([0, 123, 7]))
    elif k == 4:
        tag = b'<' + b'i' * rng.choice([0, 1, 300]) + b'>'
        args = bytes([rng.choice([0, 1, 255])]) + G.u32(5)
    elif k == 5:
        tag = b"{A`x'{B`y'i}`z'{B}}" if rng.random() < 0.5 else b"{R`v'i`n'<0{R}>}"
        args = G.u32(1) + bytes([1]) + G.u32(2) + bytes([rng.choice([0, 1])]) + G.u32(3) + bytes([0])
    else:
        tag = bytes(rng.choice(b'[(<{/\\`\'0)>}iIcyxA ') for _ in range(rng.randrange(1, 30)))
        args = bytes(rng.randrange(256) for _ in range(rng.randrange(0, 20)))
    return [G.cs_payload(5, rng.choice([0, 10 ** 9, 1 << 63]), rng.choice([0, 1 << 63, (1 << 64) - 1]), rng.choice([0, 0x80000000]), b'T'),
            G.source_payload(1, 128, b'c', b'f', b'x', 1, b'{} {}', tag), G.event_payload(1, rng.randrange(1 << 64), args)]


def buffer_boundary_log(rng):
    """valid logs whose rendered line crosses the 1024-byte print buffer of OstreamBuffer at every alignment: a string argument
    of a length around a multiple of the buffer size, preceded and followed by literal characters (incl. bytes >= 0x80),
    numbers and further strings, so that every kind of producer (put, write, the snprintf-based number printers) meets a
    buffer that is exactly full, one short of full, or just flushed"""
    base = rng.choice([1024, 1024, 2048, 3072])
    n = max(0, base + rng.randrange(-40, 41)) if rng.random() < 0.7 else rng.choice([base - 1, base, base + 1, base - 16, base - 32, base - 64])
    pre = bytes(rng.choice(b'ab \xff\x80-') for _ in range(rng.choice([0, 0, 1, 5, 16, 31])))
    suf = bytes(rng.choice(b'cd \xff\xfe<-!') for _ in range(rng.choice([0, 1, 2, 9, 16, 40])))
    kind = rng.randrange(4)
    if kind == 0:
        tags, fmt = b'[c', pre + b'{}' + suf
        args = G.u32(n) + bytes(rng.choice(b'xyz') for _ in range(n))
    elif kind == 1:
        tags, fmt = b'[cl', pre + b'{}{}' + suf
        args = G.u32(n) + bytes(rng.choice(b'xyz') for _ in range(n)) + (rng.choice([0, 1, -1, 1 << 62, -(1 << 63), 123456789]) & ((1 << 64) - 1)).to_bytes(8, 'little')
    elif kind == 2:
        tags, fmt = b'[cd[c', pre + b'{}' + suf + b'{}|{}'
        args = G.u32(n) + bytes(rng.choice(b'xyz') for _ in range(n)) + struct.pack('<d', rng.choice([0.1, 1e300, -2.5e-300, 3.0])) + G.u32(7) + b'tailstr'
    else:
        tags, fmt = b'([c[i)', pre + b'{}' + suf
        m = rng.choice([0, 1, 3, 40])
        args = G.u32(n) + bytes(rng.choice(b'xyz') for _ in range(n)) + G.u32(m) + b''.join(G.u32(rng.randrange(1 << 32)) for _ in range(m))
    return [G.cs_payload(5, 10 ** 9, rng.randrange(1 << 60), 0, b'UTC'), G.wp_payload(7, b'writer', 0),
            G.source_payload(1, 128, b'category', b'function', b'dir/file.cpp', 42, fmt, tags),
            G.event_payload(1, rng.randrange(1 << 40), args)]


def gen_case(rng):
    k = rng.randrange(11)
    if k == 10:
        return rng.choice(['0', '1']), rng.choice([b'%m\n', b'%m\n', b'%S %C [%d] %n %m (%G:%L)\n', b'%m\xff%m\n', b'%n%m']), rng.choice(DATE_FORMATS), G.frames(buffer_boundary_log(rng))
    if k < 3:
        file = G.frames(typed_log(rng))
    elif k < 7:
        file = G.frames(mutate(rng, typed_log(rng)))
    elif k < 9:
        file = G.frames(hostile_tags(rng))
    else:
        file = bytes(rng.randrange(256) for _ in range(rng.randrange(0, 60)))
        if rng.random() < 0.5:
            file = G.u32(rng.randrange(0, 40)) + file
    if rng.random() < 0.15 and file:
        file = file[:rng.randrange(len(file))]
    return rng.choice(['0', '1']), rng.choice(EVENT_FORMATS), rng.choice(DATE_FORMATS), file


# known amplification witnesses (F-C09a, F-C09b): tiny input, huge output
def dag_witness(n):
    tag = b''
    for i in range(n, 0, -1):
        inner = tag if tag else b"{S%d`v'()}" % (n + 1)
        tag = b"{S%d`a'" % i + inner + b"`b'{S%d}}" % (i + 1) if tag else b"{S%d`a'" % i + inner + b"`b'{S%d}}" % (n + 1)
    return G.frames([G.cs_payload(0, 10 ** 9, 0, 0, b''), G.source_payload(1, 128, fmt=b'{}', tags=tag), G.event_payload(1, 0, b'')])


def seq_witness(count):
    tag = b"({B`x'()}[{B})"
    return G.frames([G.cs_payload(0, 10 ** 9, 0, 0, b''), G.source_payload(1, 128, fmt=b'{}', tags=tag), G.event_payload(1, 0, G.u32(count))])


def deep_witnesses(depth):
    """tags nested far deeper than any stack allows, directly and as the element of a sequence of more than 32 elements (the
    path through `singular`): every recursion over the tag must be cut by the recursion limit, whatever the bracket kind"""
    close = {b'(': b')', b'[': b'', b'<': b'>'}
    out = []
    for op in (b'(', b'[', b'<', b'{'):
        for pre in (b'', b'['):
            inner = (b"{S`a'" * depth + b'i' + b'}' * depth) if op == b'{' else (op * depth + b'i' + close[op] * depth)
            args = (G.u32(33) if pre else b'') + (G.u32(1) * 40 if op == b'[' else bytes(200))
            out.append(('deep-%s%s-%d' % (pre.decode(), op.decode(), depth),
                        G.frames([G.cs_payload(0, 10 ** 9, 0, 0, b''), G.source_payload(1, 128, fmt=b'{}', tags=pre + inner), G.event_payload(1, 0, args)])))
    return out


BIG = 1 << 20


def big_alloc(file):
    """does reading this file make the reader resize a buffer/string to more than 1 MiB before it checks the
    input (IstreamEntryStream::_buffer, std::string members of the metadata entries)?"""
    pos = 0
    while pos + 4 <= len(file):
        size = int.from_bytes(file[pos:pos + 4], 'little')
        if size > BIG:
            return True
        p = file[pos + 4:pos + 4 + size]
        if len(p) < size:
            return False
        pos += 4 + size
        if len(p) < 8:
            continue
        tag = int.from_bytes(p[:8], 'little')
        layout = {G.TAG_SOURCE: [8, 2, 's', 's', 's', 8, 's', 's'], G.TAG_WP: [8, 's', 8], G.TAG_CS: [8, 8, 8, 4, 's']}.get(tag)
        if not layout:
            continue
        q = 8
        for f in layout:
            if f == 's':
                if q + 4 > len(p):
                    break
                n = int.from_bytes(p[q:q + 4], 'little')
                if n > BIG:
                    return True
                q += 4 + n
            else:
                q += f
            if q > len(p):
                break
    return False


def build_bread():
    objs = build_repo_objects()
    srcs = [os.path.join(REPO, 'bin', 'bread.cpp'), os.path.join(REPO, 'bin', 'getopt.cpp')]
    hh = file_hash(repo_sources()) + hashlib.sha256(' '.join(CXXFLAGS).encode()).hexdigest()[:6]
    exe = os.path.join(BUILD, 'bin', 'bread-%s' % hh)
    if os.path.exists(exe):
        return exe
    os.makedirs(os.path.dirname(exe), exist_ok=True)
    rc, out = sh(['g++'] + CXXFLAGS + ['-fno-sanitize=bool,enum,nonnull-attribute'] + srcs + objs + ['-o', exe + '.tmp', '-lpthread'])
    if rc != 0:
        raise BuildError('bread does not build:\n' + out[-3000:])
    os.replace(exe + '.tmp', exe)
    return exe


def build_bread_noasan():
    """bread without sanitizers (so that an address-space limit can be applied), assertions on"""
    flags = ['-std=c++17', '-O1', '-g', '-UNDEBUG', '-fwrapv', '-I' + os.path.join(REPO, 'include'), '-I' + os.path.join(REPO, 'bin')]
    srcs = [os.path.join(REPO, 'bin', 'bread.cpp'), os.path.join(REPO, 'bin', 'getopt.cpp')] + lib_cpp_files()
    hh = file_hash(repo_sources())
    exe = os.path.join(BUILD, 'bin', 'bread-noasan-%s' % hh)
    if os.path.exists(exe):
        return exe
    os.makedirs(os.path.dirname(exe), exist_ok=True)
    objs = build_repo_objects(flags, tag='plain')
    rc, out = sh(['g++'] + flags + srcs[:2] + objs + ['-o', exe + '.tmp', '-lpthread'])
    if rc != 0:
        raise BuildError('bread (no sanitizers) does not build:\n' + out[-3000:])
    os.replace(exe + '.tmp', exe)
    return exe


def run_bread_limited(exe, data, fmt=b'%m', timeout=20, outcap=1 << 26):
    """the real bread with a time limit and an output cap: returns (status, bytes of output seen)"""
    path = os.path.join(BUILD, 'c09-%d.blog' % os.getpid())
    with open(path, 'wb') as f:
        f.write(data)
    e = dict(os.environ); e['ASAN_OPTIONS'] = 'detect_leaks=0'
    p = subprocess.Popen([exe, '-f', fmt.decode('latin1'), path], stdout=subprocess.PIPE, stderr=subprocess.DEVNULL, env=e)
    total = 0
    import time
    t0 = time.time()
    status = 'ok'
    while True:
        chunk = p.stdout.read(1 << 20)
        if not chunk:
            break
        total += len(chunk)
        if total > outcap:
            status = 'output-cap'
            p.kill()
            break
        if time.time() - t0 > timeout:
            status = 'timeout'
            p.kill()
            break
    p.wait()
    os.remove(path)
    return status, total, time.time() - t0


def check_c09(ctx):
    ok = proof_step(ctx, 'BinlogVerif.Props.C09', C09_THEOREMS)
    exe = build_harness('reader_harness', extra_flags=['-fno-sanitize=bool,enum,nonnull-attribute'], tag='asan-nb')
    rng = random.Random(ctx.seed * 1000003 + 9)
    n = cases_count(ctx, 3000, 60000)
    cases, bigcases = [], []
    while len(cases) < n:
        c = gen_case(rng)
        (bigcases if big_alloc(c[3]) else cases).append(c)
    lines = ['bread %s %s %s %s' % (s, G.hexs(f), G.hexs(d), G.hexs(file)) for s, f, d, file in cases]
    impl, model, mism = diff_streams(ctx, 'bread', exe, lines)
    prop_fail, nontrivial = set(), set()
    st = ctx.streams['bread']
    errkinds = {}
    for i, errtxt in getattr(ctx, 'died', {}).get('bread', [])[:3]:
        # the harness died (sanitizer report / assertion / stack overflow) on this input
        prop_fail.add(i)
        ctx.violation('crash-' + hashlib.sha256(lines[i].encode()).hexdigest()[:10],
                      'C09: the reader crashed (sanitizer report, assertion or stack overflow) on an input: ' + ' '.join(errtxt[-400:].split()),
                      {'kind': 'input', 'input_line': lines[i][:20000], 'stderr': errtxt})
    for i in range(min(len(impl), len(lines))):
        kv = parse_kv(impl[i])
        e = kv.get('err', '-')
        errkinds[e] = errkinds.get(e, 0) + 1
        if e.startswith('other:'):
            prop_fail.add(i)
            ctx.violation('exception-' + hashlib.sha256(lines[i].encode()).hexdigest()[:10],
                          'C09: the reader ended with an exception the model does not know: ' + e, {'kind': 'input', 'input_line': lines[i], 'impl': impl[i]})
        if i in mism and i not in prop_fail:
            ctx.violation('corr-bread-%d' % i, 'correspondence bread broke: model and implementation disagree on case %d' % i,
                          {'kind': 'correspondence', 'stream': 'bread', 'input_line': lines[i], 'impl': impl[i],
                           'model': model[i] if i < len(model) else None, 'broken': 'correspondence stream bread / Props.C09'}, found_input=False)
        if kv.get('text'):
            nontrivial.add(lines[i])
    st['error_kinds'] = errkinds
    # amplification witnesses on the real bread binary (time/output bounded by a small polynomial?)
    bread = build_bread()
    amp = {}
    for key, data, bound in (('struct-reference-dag-exponential', dag_witness(18), 1 << 22),
                             ('zero-size-reference-sequence', seq_witness(3000000), 1 << 22)):
        status, total, secs = run_bread_limited(bread, data)
        amp[key] = {'input_bytes': len(data), 'output_bytes_seen': total, 'status': status, 'seconds': round(secs, 2)}
        if total > bound or status != 'ok':
            ctx.violation(key, 'C09: a %d byte log makes bread print %s%d bytes (%s, %.1fs): output is not bounded by a small polynomial of the input size' % (
                len(data), '>' if status != 'ok' else '', total, status, secs),
                {'kind': 'input', 'file_hex': data.hex(), 'format': '%m', 'observed': amp[key]})
    st['amplification_witnesses'] = amp
    # inputs that make the reader allocate > 1 MiB before checking the input (the resize-before-read of the entry stream and of
    # string members): run on the real bread binary under an address-space limit; it must end with a reported error, not a crash
    big = {'cases': 0, 'exit_codes': {}}
    breadn = build_bread_noasan()
    for s_, f_, d_, file in bigcases[:(20 if ctx.tier == 'quick' else 400)]:
        path = os.path.join(BUILD, 'c09big-%d.blog' % os.getpid())
        open(path, 'wb').write(file)
        def limit():
            resource.setrlimit(resource.RLIMIT_AS, (1 << 30, 1 << 30))
        p = subprocess.run([breadn] + (['-s'] if s_ == '1' else []) + ['-f', f_.decode('latin1'), '-d', d_.decode('latin1'), path],
                           stdout=subprocess.DEVNULL, stderr=subprocess.PIPE, preexec_fn=limit, timeout=120)
        os.remove(path)
        big['cases'] += 1
        big['exit_codes'][str(p.returncode)] = big['exit_codes'].get(str(p.returncode), 0) + 1
        if p.returncode not in (0, 3):
            prop_fail.add(-2)
            ctx.violation('bigalloc-' + hashlib.sha256(file).hexdigest()[:10],
                          'C09: bread ended with status %d (not a reported error) on an input with a huge size field: %s' % (p.returncode, p.stderr.decode('latin1')[-200:]),
                          {'kind': 'input', 'file_hex': file.hex(), 'format': f_.hex(), 'date_format': d_.hex(), 'sorted': s_})
    st['huge_size_fields'] = big
    # nesting far beyond the stack: the real bread binary under an 8 MiB stack must report an error, not die
    deep = {}
    for depth in ([100000] if ctx.tier == 'quick' else [100000, 1000000]):
        for name, data in deep_witnesses(depth):
            path = os.path.join(BUILD, 'c09deep-%d.blog' % os.getpid())
            open(path, 'wb').write(data)
            p = subprocess.run([breadn, '-f', '%m', path], stdout=subprocess.DEVNULL, stderr=subprocess.PIPE, timeout=600,
                               preexec_fn=lambda: resource.setrlimit(resource.RLIMIT_STACK, (8 << 20, 8 << 20)))
            os.remove(path)
            deep[name] = p.returncode
            if p.returncode not in (0, 3):
                prop_fail.add(-3)
                ctx.violation(name, 'C09: bread ended with status %d (killed by a signal: stack overflow) on a %d byte log whose tag nests %d levels' % (
                    p.returncode, len(data), depth), {'kind': 'input', 'generator': 'checks_robust.deep_witnesses(%d)' % depth, 'name': name,
                    'file_hex_prefix': data[:200].hex(), 'file_bytes': len(data), 'format': '%m', 'replay': 'bread -f %m <file> under ulimit -s 8192'})
    st['deep_nesting'] = deep
    finish_proof(ctx, ok, bool(prop_fail))
    ctx.coverage.update({'evaluations': len(lines), 'distinct_nontrivial': len(nontrivial),
                         'traces_validated_against_impl': len(lines) - len(mism),
                         'rule': 'three input streams x event formats x date formats x sorted/unsorted: valid logs whose argument tags/values come '
                                 'from the type generator; structure-aware mutations of them (bit flips, tag characters, inflated counts, '
                                 'truncations, bracket floods); hostile tags (nesting to 2100, zero-size elements, broken enums, struct '
                                 'references) and unstructured bytes; real reader under ASan+UBSan with assertions; text and error kind compared '
                                 'with the model; non-trivial = some text was printed; distinct by input line'})
    ctx.samples = [lines[0][:300], lines[1][:300]]
    return ctx.finish()


CHECKS = {'C09': check_c09}
